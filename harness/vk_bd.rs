//! Accessors for BlockCache's private fields (crate::blockdevice::vk_bd).
#![allow(dead_code)]
use super::*;

pub fn dev<D: BlockDevice>(c: &BlockCache<D>) -> &D {
    &c.block_device
}
pub fn cached_idx<D: BlockDevice>(c: &BlockCache<D>) -> Option<BlockIdx> {
    c.block_idx
}
pub fn cached_block<D: BlockDevice>(c: &BlockCache<D>) -> &Block {
    &c.block[0]
}
pub fn set_cache<D: BlockDevice>(c: &mut BlockCache<D>, idx: Option<BlockIdx>, b: Block) {
    c.block_idx = idx;
    c.block[0] = b;
}
