//! FatVolume-level harnesses (crate::fat::volume::vk_fat): FAT entry codec,
//! allocator, truncation, directory read/write, mkdir, info sector.
//! Serves C03 C04 C05 C06 C10 C16 (and the FAT-level parts of C02 C09 C11).
#![allow(dead_code, unused_imports)]
use super::*;
use crate::blockdevice::vk_bd;
use crate::fat::{Fat16Info, Fat32Info};
use crate::vk_common::*;

type Cache<const N: usize> = BlockCache<SymDisk<N>>;

fn zero_blocks<const N: usize>() -> [Block; N] {
    core::array::from_fn(|_| Block::new())
}

// ------------------------------------------------------------- FAT images ---

/// FAT16 sector: entries 0/1 as a formatter writes them, entries
/// 2..2+nsym symbolic (clusters + slack), the rest `fill`.
fn sym_fat16(nsym: usize, fill: u16) -> Block {
    let mut b = Block::new();
    put16(&mut b.contents, 0, 0xFFF8);
    put16(&mut b.contents, 2, 0xFFFF);
    let mut c = 2;
    while c < 256 {
        if c < 2 + nsym {
            put16(&mut b.contents, 2 * c, kani::any());
        } else if fill != 0 {
            put16(&mut b.contents, 2 * c, fill);
        }
        c += 1;
    }
    b
}

fn sym_fat32(nsym: usize, fill: u32) -> Block {
    let mut b = Block::new();
    put32(&mut b.contents, 0, 0x0FFF_FFF8);
    put32(&mut b.contents, 4, 0x0FFF_FFFF);
    let mut c = 2;
    while c < 128 {
        if c < 2 + nsym {
            put32(&mut b.contents, 4 * c, kani::any());
        } else if fill != 0 {
            put32(&mut b.contents, 4 * c, fill);
        }
        c += 1;
    }
    b
}

fn f16(b: &Block, c: u32) -> u16 {
    le16(&b.contents, 2 * c as usize)
}
fn f32(b: &Block, c: u32) -> u32 {
    le32(&b.contents, 4 * c as usize)
}

// ----------------------------------------------------- FAT entry decoding ---

/// next_cluster on FAT16: classification of every 16-bit entry value per the
/// FAT specification (0xFFF7 bad, 0xFFF8..=0xFFFF end of chain, anything else
/// is the next cluster number); reads only, writes nothing.
#[kani::proof]
#[kani::unwind(12)]
fn c05_next_cluster_fat16() {
    let e: u16 = kani::any();
    let mut blocks: [Block; G16A_N] = zero_blocks();
    put16(&mut blocks[G16A_FAT as usize].contents, 2 * 3, e);
    let vol = g16a();
    let mut cache = BlockCache::new(SymDisk::new(0, blocks));
    let r = vol.next_cluster(&mut cache, ClusterId(3));
    match r {
        Ok(n) => assert!(e < 0xFFF7 && n.0 == e as u32, "fat16.next: value is not the next cluster number"),
        Err(Error::BadCluster) => assert!(e == 0xFFF7, "fat16.next: BadCluster for a value other than 0xFFF7"),
        Err(Error::EndOfFile) => assert!(e >= 0xFFF8, "fat16.next: end-of-chain for a value below 0xFFF8"),
        Err(_) => assert!(false, "fat16.next: unexpected error"),
    }
    assert!(vk_bd::dev(&cache).nwrites.get() == 0, "fat16.next: wrote to the device");
    kani::cover!(e == 0xFFF0);
    kani::cover!(e == 0xFFF8);
    kani::cover!(e == 0xFFF7);
}

#[kani::proof]
#[kani::unwind(12)]
fn c05_next_cluster_fat32() {
    let e: u32 = kani::any();
    let mut blocks: [Block; G32A_N] = zero_blocks();
    put32(&mut blocks[G32A_FAT1 as usize].contents, 4 * 3, e);
    let vol = g32a();
    let mut cache = BlockCache::new(SymDisk::new(0, blocks));
    let r = vol.next_cluster(&mut cache, ClusterId(3));
    let v = e & 0x0FFF_FFFF;
    match r {
        Ok(n) => assert!(v >= 2 && v < 0x0FFF_FFF7 && n.0 == v, "fat32.next: value is not the next cluster number (low 28 bits)"),
        Err(Error::BadCluster) => assert!(v == 0x0FFF_FFF7, "fat32.next: BadCluster for a value other than 0x0FFFFFF7"),
        Err(Error::EndOfFile) => assert!(v >= 0x0FFF_FFF8 || v == 1, "fat32.next: end-of-chain for a value below 0x0FFFFFF8"),
        Err(Error::UnterminatedFatChain) => assert!(v == 0, "fat32.next: free-entry error for a non-zero entry"),
        Err(_) => assert!(false, "fat32.next: unexpected error"),
    }
    assert!(vk_bd::dev(&cache).nwrites.get() == 0, "fat32.next: wrote to the device");
    kani::cover!(e == 0xF000_0005);
    kani::cover!(v == 0x0FFF_FFF0);
    kani::cover!(v == 0);
}

// ------------------------------------------------------------- update_fat ---

fn enc16(v: u32) -> u16 {
    match v {
        0xFFFF_FFF6 => 0xFFF6,
        0xFFFF_FFF7 => 0xFFF7,
        0 => 0,
        0xFFFF_FFFF => 0xFFFF,
        x => x as u16,
    }
}

/// update_fat on FAT16 (1 FAT): exactly the addressed entry changes, every
/// other byte of the FAT sector is preserved, only the FAT sector is written.
/// The cluster is concrete per instance (positions concrete, contents symbolic).
fn update_fat16_frame(c: u32) {
    let mut blocks: [Block; G16A_N] = zero_blocks();
    blocks[G16A_FAT as usize] = any_block();
    let pre = blocks[G16A_FAT as usize].clone();
    let mut vol = g16a();
    let mut cache = BlockCache::new(SymDisk::new(0, blocks));
    let v: u32 = kani::any();
    let r = vol.update_fat(&mut cache, ClusterId(c), ClusterId(v));
    assert!(r.is_ok(), "fat16.update: failed without a device error");
    let dev = vk_bd::dev(&cache);
    let post = dev.block(G16A_FAT);
    assert!(f16(&post, c) == enc16(v), "fat16.update: entry does not hold the new value");
    let mut p = 0;
    while p < 512 {
        if p / 2 != c as usize {
            assert!(post.contents[p] == pre.contents[p], "fat.frame: update_fat changed a byte outside the addressed entry");
        }
        p += 1;
    }
    assert!(dev.nwrites.get() == 1 && dev.wrote(G16A_FAT), "fat.region: update_fat wrote something other than the FAT sector");
    kani::cover!(v == 0xFFFF_FFFF);
    kani::cover!(v == 0);
}
#[kani::proof]
#[kani::unwind(514)]
fn c04_update_fat16_frame_c3() {
    update_fat16_frame(3);
}
#[kani::proof]
#[kani::unwind(514)]
fn c04_update_fat16_frame_c255() {
    update_fat16_frame(255);
}

/// update_fat on FAT32 (2 FATs): low 28 bits replaced, high nibble preserved,
/// other bytes preserved, both FAT copies written and identical.
fn update_fat32_copies(c: u32) {
    let mut blocks: [Block; G32A_N] = zero_blocks();
    blocks[G32A_FAT1 as usize] = any_block();
    blocks[G32A_FAT2 as usize] = any_block(); // the copies may even differ beforehand
    let pre = blocks[G32A_FAT1 as usize].clone();
    let mut vol = g32a();
    let mut cache = BlockCache::new(SymDisk::new(0, blocks));
    let v: u32 = kani::any();
    let r = vol.update_fat(&mut cache, ClusterId(c), ClusterId(v));
    assert!(r.is_ok(), "fat32.update: failed without a device error");
    let dev = vk_bd::dev(&cache);
    let post = dev.block(G32A_FAT1);
    let post2 = dev.block(G32A_FAT2);
    let want = match v {
        0xFFFF_FFF6 => 0x0FFF_FFF6,
        0xFFFF_FFF7 => 0x0FFF_FFF7,
        x => x & 0x0FFF_FFFF,
    };
    assert!(f32(&post, c) & 0x0FFF_FFFF == want, "fat32.update: entry does not hold the new value");
    assert!(f32(&post, c) & 0xF000_0000 == f32(&pre, c) & 0xF000_0000, "fat32.update: reserved high nibble not preserved");
    let mut p = 0;
    while p < 512 {
        if p / 4 != c as usize {
            assert!(post.contents[p] == pre.contents[p], "fat.frame: update_fat changed a byte outside the addressed entry");
        }
        assert!(post2.contents[p] == post.contents[p], "fat.copies: second FAT differs from the first after update");
        p += 1;
    }
    assert!(dev.nwrites.get() == 2 && dev.wrote(G32A_FAT1) && dev.wrote(G32A_FAT2), "fat.region: update_fat must write exactly the two FAT sectors");
    kani::cover!(v == 0xFFFF_FFFF && f32(&pre, c) >> 28 == 0xA);
}
#[kani::proof]
#[kani::unwind(514)]
fn c16_update_fat32_both_copies_c5() {
    update_fat32_copies(5);
}
#[kani::proof]
#[kani::unwind(514)]
fn c16_update_fat32_both_copies_c127() {
    update_fat32_copies(127);
}

// ------------------------------------------------- find_next_free_cluster ---

/// find_next_free_cluster(start, end) on FAT16 with symbolic FAT contents
/// (4 clusters + 2 slack entries symbolic, rest `fill`) and a concrete scan
/// start: returns the first free cluster in [start, end) and nothing else.
fn find_free16(start: u32, fill: u16) {
    const COUNT: u32 = 4;
    let mut blocks: [Block; G16A_N] = zero_blocks();
    blocks[G16A_FAT as usize] = sym_fat16(COUNT as usize + 2, fill);
    let fat = blocks[G16A_FAT as usize].clone();
    let vol = g16a();
    let mut cache = BlockCache::new(SymDisk::new(0, blocks));
    let end = COUNT + 2;
    let r = vol.find_next_free_cluster(&mut cache, ClusterId(start), ClusterId(end));
    // spec: lowest c in [start, end) with entry 0
    let mut want = 0u32;
    let mut c = end;
    while c > start {
        c -= 1;
        if f16(&fat, c) == 0 {
            want = c;
        }
    }
    match r {
        Ok(n) => {
            assert!(n.0 >= start && n.0 < end, "alloc.in_range: free-cluster search returned a cluster outside [start, end) (FAT slack)");
            assert!(n.0 == want, "alloc.first_free: not the first free cluster at or after the start");
        }
        Err(Error::NotEnoughSpace) => assert!(want == 0, "alloc.full_use: search failed although a free cluster exists in range"),
        Err(_) => assert!(false, "alloc.search: unexpected error"),
    }
    assert!(vk_bd::dev(&cache).nwrites.get() == 0, "alloc.search: wrote to the device");
    kani::cover!(matches!(r, Ok(n) if n.0 == end - 1));
    kani::cover!(r.is_err() && f16(&fat, end) == 0, "volume full, slack entry zero");
    kani::cover!(r.is_err() && f16(&fat, end) != 0);
}
#[kani::proof]
#[kani::unwind(258)]
fn c05_find_free16_from2() {
    find_free16(2, 0);
}
#[kani::proof]
#[kani::unwind(258)]
fn c05_find_free16_from4() {
    find_free16(4, 0);
}
#[kani::proof]
#[kani::unwind(258)]
fn c05_find_free16_from5_dirty() {
    find_free16(5, 0xFFF7);
}

fn find_free32(start: u32) {
    const COUNT: u32 = 4;
    let mut blocks: [Block; G32A_N] = zero_blocks();
    blocks[G32A_FAT1 as usize] = sym_fat32(COUNT as usize + 2, 0);
    let fat = blocks[G32A_FAT1 as usize].clone();
    let vol = g32a();
    let mut cache = BlockCache::new(SymDisk::new(0, blocks));
    let end = COUNT + 2;
    let r = vol.find_next_free_cluster(&mut cache, ClusterId(start), ClusterId(end));
    let mut want = 0u32;
    let mut c = end;
    while c > start {
        c -= 1;
        if f32(&fat, c) & 0x0FFF_FFFF == 0 {
            want = c;
        }
    }
    match r {
        Ok(n) => {
            assert!(n.0 >= start && n.0 < end, "alloc.in_range: free-cluster search returned a cluster outside [start, end) (FAT slack)");
            assert!(n.0 == want, "alloc.first_free: not the first free cluster at or after the start");
        }
        Err(Error::NotEnoughSpace) => assert!(want == 0, "alloc.full_use: search failed although a free cluster exists in range"),
        Err(_) => assert!(false, "alloc.search: unexpected error"),
    }
    kani::cover!(matches!(r, Ok(n) if n.0 == end - 1));
    kani::cover!(r.is_err() && f32(&fat, end) & 0x0FFF_FFFF == 0);
}
#[kani::proof]
#[kani::unwind(130)]
fn c05_find_free32_from2() {
    find_free32(2);
}
#[kani::proof]
#[kani::unwind(130)]
fn c05_find_free32_from3() {
    find_free32(3);
}

// ---------------------------------------------------------- alloc_cluster ---

/// alloc_cluster on FAT16 for one concrete free map (bit i of `free` = cluster
/// 2+i free; bits 4,5 = the two slack entries are zero), used clusters hold an
/// end-of-chain mark; prev (if any) symbolic among the used clusters; hint and
/// free-count record symbolic in a small set.  Everything the allocator
/// computes from the FAT is then concrete and the call is decided in seconds;
/// the harness branches over all 64 maps.
fn alloc16_map(free: u8, prev_c: u32, zero: bool, hint: Option<u32>) {
    const COUNT: u32 = 4;
    let mut blocks: [Block; G16A_N] = zero_blocks();
    {
        let f = &mut blocks[G16A_FAT as usize].contents;
        put16(f, 0, 0xFFF8);
        put16(f, 2, 0xFFFF);
        let mut i = 0;
        while i < 6 {
            put16(f, 2 * (2 + i), if free & (1 << i) != 0 { 0 } else { 0xFFFF });
            i += 1;
        }
    }
    blocks[(G16A_DATA + 1) as usize] = any_block(); // stale contents in a data cluster
    let pre = blocks[G16A_FAT as usize].clone();
    let mut vol = g16a();
    // concrete per instance: a symbolic scan start makes every FAT access symbolic
    vol.next_free_cluster = hint.map(ClusterId);
    let nfree = (free & 0xF).count_ones();
    // prev: concrete per instance (0 = none); a symbolic prev makes the FAT update a
    // symbolic-offset write and every later scan of that sector symbolic
    let prev = if prev_c >= 2 { Some(ClusterId(prev_c)) } else { None };
    let mut cache = BlockCache::new(SymDisk::new(0, blocks));
    let r = vol.alloc_cluster(&mut cache, prev, zero);
    let dev = vk_bd::dev(&cache);
    let post = dev.block(G16A_FAT);
    match r {
        Ok(n) => {
            assert!(n.0 >= 2 && n.0 < COUNT + 2, "alloc.in_range: allocated a cluster outside the volume (FAT slack)");
            assert!(f16(&pre, n.0) == 0, "alloc.was_free: allocated a cluster that was not free");
            assert!(f16(&post, n.0) >= 0xFFF8, "alloc.eoc: new cluster not marked end-of-chain");
            if let Some(p) = prev {
                assert!(f16(&post, p.0) as u32 == n.0, "alloc.link: previous cluster not linked to the new one");
            }
            let q: u32 = kani::any();
            kani::assume(q < 256 && q != n.0 && Some(ClusterId(q)) != prev);
            assert!(f16(&post, q) == f16(&pre, q), "fat.frame: alloc changed an unrelated FAT entry");
            if let Some(h) = vol.next_free_cluster {
                assert!(h.0 >= 2 && h.0 < COUNT + 2, "alloc.hint: next-free hint outside the volume");
            }
            if zero {
                let z: usize = kani::any();
                kani::assume(z < 512);
                assert!(dev.byte(G16A_DATA + n.0 - 2, z) == 0, "alloc.zero: new directory cluster not zeroed");
            }
        }
        Err(_) => {
            assert!(nfree == 0, "alloc.full_use: allocation failed although a free cluster exists");
            let q: u32 = kani::any();
            kani::assume(q < 256);
            assert!(f16(&post, q) == f16(&pre, q), "alloc.failed_clean: failed allocation left the FAT modified (leaked cluster)");
        }
    }
    // region: only the FAT sector, and (zeroing) the new cluster's block
    let w: usize = kani::any();
    kani::assume(w < LOG_CAP && (w as u32) < dev.nwrites.get());
    let idx = dev.log.borrow()[w];
    let newblk = match r {
        Ok(n) => G16A_DATA + n.0 - 2,
        Err(_) => u32::MAX,
    };
    let ok_region = idx == G16A_FAT || (zero && idx == newblk);
    assert!(ok_region, "write.region: alloc wrote outside the FAT / the new cluster");
    kani::cover!(r.is_ok() == (nfree > 0), "instance reaches its expected outcome");
}

// One harness per concrete (free map, prev, zero, hint) instance: bits 0..3 = clusters
// 2..5 free, bits 4,5 = slack entries zero; prev 0 = none.
#[kani::proof]
#[kani::unwind(14)]
fn c05_alloc16_a_3e_p2() {
    alloc16_map(0x3E, 2, false, None);
}
#[kani::proof]
#[kani::unwind(14)]
fn c05_alloc16_a_38_p3_h4() {
    alloc16_map(0x38, 3, false, Some(4));
}
#[kani::proof]
#[kani::unwind(14)]
fn c05_alloc16_a_30_p2() {
    alloc16_map(0x30, 2, false, None);
}
#[kani::proof]
#[kani::unwind(14)]
fn c05_alloc16_a_3f_none() {
    alloc16_map(0x3F, 0, false, None);
}
#[kani::proof]
#[kani::unwind(14)]
fn c05_alloc16_a_31_p5_h5() {
    alloc16_map(0x31, 5, false, Some(5));
}
#[kani::proof]
#[kani::unwind(14)]
fn c05_alloc16_a_34_p2_h1000() {
    alloc16_map(0x34, 2, false, Some(1000));
}
#[kani::proof]
#[kani::unwind(14)]
fn c05_alloc16_a_32_p2_h6() {
    alloc16_map(0x32, 2, false, Some(6));
}
#[kani::proof]
#[kani::unwind(14)]
fn c05_alloc16_a_00_p2() {
    alloc16_map(0x00, 2, false, None);
}
#[kani::proof]
#[kani::unwind(14)]
fn c05_alloc16_a_08_p2() {
    alloc16_map(0x08, 2, false, None);
}
#[kani::proof]
#[kani::unwind(14)]
fn c05_alloc16_a_18_p2() {
    alloc16_map(0x18, 2, false, None);
}
#[kani::proof]
#[kani::unwind(14)]
fn c05_alloc16_a_3e_p2_zero() {
    alloc16_map(0x3E, 2, true, None);
}
#[kani::proof]
#[kani::unwind(14)]
fn c05_alloc16_a_38_p4_zero() {
    alloc16_map(0x38, 4, true, None);
}
#[kani::proof]
#[kani::unwind(14)]
fn c05_alloc16_a_30_p5_zero() {
    alloc16_map(0x30, 5, true, None);
}

// ---------------------------------------------------- cluster arithmetic ---

/// cluster_to_block for fully symbolic FAT16/FAT32 geometry satisfying what
/// mount establishes: every block of every in-range cluster lies inside the
/// partition's data area.
#[kani::proof]
fn c04_cluster_to_block_in_data_area() {
    let lba: u32 = kani::any();
    let nblocks: u32 = kani::any();
    let bpc: u8 = kani::any();
    let first_data: u32 = kani::any();
    let count: u32 = kani::any();
    let k: u8 = kani::any();
    kani::assume(k <= 7 && bpc == 1u8 << k);
    // mount invariant: data area = first_data .. first_data + count*bpc, inside the partition, no u32 overflow
    kani::assume(count >= 1 && count <= 0x0FFF_FFF5);
    let span = (count as u64) << k;
    kani::assume(first_data as u64 + span <= nblocks as u64);
    kani::assume(lba as u64 + nblocks as u64 <= 0x1_0000_0000);
    let fat32: bool = kani::any();
    let vol = FatVolume {
        lba_start: BlockIdx(lba),
        num_blocks: BlockCount(nblocks),
        name: VolumeName { contents: [b' '; 11] },
        blocks_per_cluster: bpc,
        first_data_block: BlockCount(first_data),
        fat_start: BlockCount(1),
        second_fat_start: None,
        free_clusters_count: None,
        next_free_cluster: None,
        cluster_count: count,
        fat_specific_info: if fat32 {
            FatSpecificInfo::Fat32(Fat32Info { first_root_dir_cluster: ClusterId(2), info_location: BlockIdx(lba.wrapping_add(1)) })
        } else {
            FatSpecificInfo::Fat16(Fat16Info { first_root_dir_block: BlockCount(2), root_entries_count: 16 })
        },
    };
    let c: u32 = kani::any();
    kani::assume(c >= 2 && c - 2 < count);
    let b = vol.cluster_to_block(ClusterId(c));
    let lo = lba as u64 + first_data as u64 + (((c - 2) as u64) << k);
    assert!(b.0 as u64 == lo, "geom.cluster_to_block: first block of cluster != lba + first_data + (c-2)*bpc");
    assert!(lo + (bpc as u64) <= lba as u64 + nblocks as u64, "geom.in_partition: cluster extends past the partition");
    assert!(vol.bytes_per_cluster() == (bpc as u32) * 512, "geom.bytes_per_cluster");
    kani::cover!(bpc == 128 && c > 1000);
    kani::cover!(fat32 && bpc == 1);
}


// ============================================================ directories ===
// Specification-side reader of a directory made of 512-byte blocks of 32-byte
// slots (FAT specification section 6): byte 0 == 0x00 ends the directory,
// 0xE5 marks a deleted slot, everything else is a live slot.

/// number of live slots before the end marker in `b[..nblk]`, and (via `k`) the
/// position of the k-th live slot
fn spec_kth_live(blks: &[&Block], k: usize) -> (usize, Option<(usize, usize)>) {
    let mut n = 0;
    let mut hit = None;
    let mut ended = false;
    let mut bi = 0;
    while bi < blks.len() {
        let mut s = 0;
        while s < 16 {
            let f = blks[bi].contents[32 * s];
            if !ended {
                if f == 0x00 {
                    ended = true;
                } else if f != 0xE5 {
                    if n == k {
                        hit = Some((bi, s));
                    }
                    n += 1;
                }
            }
            s += 1;
        }
        bi += 1;
    }
    (n, hit)
}

/// first slot (before the end marker) whose 11 name bytes equal `name`
fn spec_find(blks: &[&Block], name: &[u8; 11]) -> Option<(usize, usize)> {
    let mut hit = None;
    let mut ended = false;
    let mut bi = 0;
    while bi < blks.len() {
        let mut s = 0;
        while s < 16 {
            let o = 32 * s;
            let c = &blks[bi].contents;
            if !ended && hit.is_none() {
                if c[o] == 0x00 {
                    ended = true;
                } else {
                    let mut eq = true;
                    let mut i = 0;
                    while i < 11 {
                        if c[o + i] != name[i] {
                            eq = false;
                        }
                        i += 1;
                    }
                    if eq {
                        hit = Some((bi, s));
                    }
                }
            }
            s += 1;
        }
        bi += 1;
    }
    hit
}

fn slot_matches_entry(c: &[u8; 512], s: usize, e: &DirEntry, fat32: bool) -> bool {
    let o = 32 * s;
    let mut ok = true;
    let mut i = 0;
    while i < 11 {
        if e.name.contents[i] != c[o + i] {
            ok = false;
        }
        i += 1;
    }
    let lo = le16(c, o + 26) as u32;
    let hi = le16(c, o + 20) as u32;
    let mut cl = if fat32 { (hi << 16) | lo } else { lo };
    if cl == 0 && c[o + 11] & 0x10 != 0 {
        cl = ClusterId::ROOT_DIR.0; // cluster 0 in a directory entry designates the root
    }
    let mt = crate::filesystem::Timestamp::from_fat(le16(c, o + 24), le16(c, o + 22));
    let ct = crate::filesystem::Timestamp::from_fat(le16(c, o + 16), le16(c, o + 14));
    ok && e.attributes.0 == c[o + 11] && e.cluster.0 == cl && e.size == le32(c, o + 28) && e.entry_offset == o as u32 && e.mtime == mt && e.ctime == ct
}

fn root16_dirinfo() -> DirectoryInfo {
    DirectoryInfo { raw_directory: crate::filesystem::RawDirectory(crate::filesystem::Handle(7)), raw_volume: crate::RawVolume(crate::filesystem::Handle(1)), cluster: ClusterId::ROOT_DIR }
}

/// find_directory_entry over a fully symbolic 16-slot FAT16 root: Ok exactly
/// when the spec reader finds the name before the end marker, and then the
/// first such slot with the fields stored on disk.
#[kani::proof]
#[kani::unwind(18)]
fn c06_find_root16() {
    let mut blocks: [Block; G16A_N] = zero_blocks();
    blocks[G16A_ROOT as usize] = any_block();
    let root = blocks[G16A_ROOT as usize].clone();
    let vol = g16a();
    let mut cache = BlockCache::new(SymDisk::new(0, blocks));
    let name: [u8; 11] = kani::any();
    kani::assume(name[0] != 0x00);
    let r = vol.find_directory_entry(&mut cache, &root16_dirinfo(), &ShortFileName { contents: name });
    let want = spec_find(&[&root], &name);
    match (&r, want) {
        (Ok(e), Some((_, s))) => {
            assert!(slot_matches_entry(&root.contents, s, e, false), "dir.lookup: entry returned is not the first matching slot / fields differ from disk");
            assert!(e.entry_block.0 == G16A_ROOT, "dir.lookup: entry_block");
        }
        (Err(Error::NotFound), None) => {}
        (Ok(_), None) => assert!(false, "dir.lookup: found a name that is not in the directory (or lies past the end marker)"),
        (Err(_), Some(_)) => assert!(false, "dir.lookup: a name present in the directory was not found"),
        (Err(_), None) => assert!(false, "dir.lookup: wrong error for a missing name"),
    }
    assert!(vk_bd::dev(&cache).nwrites.get() == 0, "dir.lookup: wrote to the device");
    kani::cover!(matches!(want, Some((_, 15))));
    kani::cover!(want.is_none() && root.contents[0] != 0);
    kani::cover!(matches!(want, Some((_, s)) if s > 2) && root.contents[32] == 0xE5);
}

/// iterate_dir over a fully symbolic 16-slot FAT16 root: every live slot
/// exactly once, in on-disk order, with the stored fields; no deleted slot,
/// nothing after the end marker.
#[kani::proof]
#[kani::unwind(18)]
fn c06_iterate_root16() {
    let mut blocks: [Block; G16A_N] = zero_blocks();
    blocks[G16A_ROOT as usize] = any_block();
    let root = blocks[G16A_ROOT as usize].clone();
    let vol = g16a();
    let mut cache = BlockCache::new(SymDisk::new(0, blocks));
    let k: usize = kani::any();
    kani::assume(k < 16);
    let mut n = 0usize;
    let mut kth: Option<DirEntry> = None;
    let r = vol.iterate_dir(&mut cache, &root16_dirinfo(), |de| {
        if n == k {
            kth = Some(de.clone());
        }
        n += 1;
    });
    assert!(r.is_ok(), "dir.list: listing failed without a device error");
    let (want_n, want_k) = spec_kth_live(&[&root], k);
    assert!(n == want_n, "dir.list: number of entries reported != number of live slots before the end marker");
    match (kth, want_k) {
        (Some(e), Some((_, s))) => {
            assert!(slot_matches_entry(&root.contents, s, &e, false), "dir.list: k-th reported entry is not the k-th live slot / fields differ from disk");
            assert!(e.entry_block.0 == G16A_ROOT, "dir.list: entry_block");
        }
        (None, None) => {}
        _ => assert!(false, "dir.list: order / count mismatch"),
    }
    kani::cover!(want_n == 16);
    kani::cover!(want_n == 3 && root.contents[0] == 0xE5 && k == 2);
    kani::cover!(want_n == 0);
}

/// a directory block with 16 live entries with concrete names X0..XF (no end marker)
fn full_concrete_dir_block() -> Block {
    let mut b = Block::new();
    let mut s = 0;
    while s < 16 {
        let o = 32 * s;
        let mut i = 0;
        while i < 11 {
            b.contents[o + i] = b' ';
            i += 1;
        }
        b.contents[o] = b'X';
        b.contents[o + 1] = b"0123456789ABCDEF"[s];
        b.contents[o + 11] = 0x20;
        b.contents[o + 26] = 0;
        b.contents[o + 28] = s as u8;
        s += 1;
    }
    b
}

/// FAT32 root directory spanning two clusters (chain 2 -> 4 -> end, concrete
/// FAT, directory contents symbolic): listing and lookup continue into the
/// second cluster and stop at the end of the chain.
fn fat32_two_cluster_dir() -> ([Block; G32A_N], Block, Block) {
    let mut blocks: [Block; G32A_N] = zero_blocks();
    {
        let f = &mut blocks[G32A_FAT1 as usize].contents;
        put32(f, 0, 0x0FFF_FFF8);
        put32(f, 4, 0x0FFF_FFFF);
        put32(f, 8, 4); // 2 -> 4
        put32(f, 12, 0x0FFF_FFFF); // 3: someone else's
        put32(f, 16, 0x0FFF_FFFF); // 4: end
        put32(f, 20, 0);
    }
    blocks[G32A_FAT2 as usize] = blocks[G32A_FAT1 as usize].clone();
    blocks[G32A_DATA as usize] = full_concrete_dir_block(); // cluster 2: 16 live entries, concrete
    blocks[(G32A_DATA + 2) as usize] = any_block(); // cluster 4: fully symbolic
    blocks[(G32A_DATA + 1) as usize] = any_block(); // cluster 3 (not part of the directory)
    let a = blocks[G32A_DATA as usize].clone();
    let b = blocks[(G32A_DATA + 2) as usize].clone();
    (blocks, a, b)
}

#[kani::proof]
#[kani::unwind(18)]
fn c06_find_root32_two_clusters() {
    let (blocks, a, b) = fat32_two_cluster_dir();
    let vol = g32a();
    let mut cache = BlockCache::new(SymDisk::new(0, blocks));
    let name: [u8; 11] = kani::any();
    kani::assume(name[0] != 0x00);
    let r = vol.find_directory_entry(&mut cache, &root16_dirinfo(), &ShortFileName { contents: name });
    // per-block end marker semantics of the library: the end marker ends the *block* scan; spec: ends the directory
    let want = spec_find(&[&a, &b], &name);
    match (&r, want) {
        (Ok(e), Some((bi, s))) => {
            let blk = if bi == 0 { &a } else { &b };
            assert!(slot_matches_entry(&blk.contents, s, e, true), "dir.lookup: entry returned is not the first matching slot / fields differ from disk");
            assert!(e.entry_block.0 == if bi == 0 { G32A_DATA } else { G32A_DATA + 2 }, "dir.lookup: entry_block does not follow the cluster chain");
        }
        (Err(Error::NotFound), None) => {}
        (Ok(_), None) => assert!(false, "dir.lookup: found a name that is not in the directory (or lies past the end marker)"),
        (Err(_), Some(_)) => assert!(false, "dir.lookup: a name present in the directory was not found"),
        (Err(_), None) => assert!(false, "dir.lookup: wrong error for a missing name"),
    }
    kani::cover!(matches!(want, Some((1, 15))));
    kani::cover!(matches!(want, Some((0, 0))));
    kani::cover!(want.is_none());
}

#[kani::proof]
#[kani::unwind(18)]
fn c06_iterate_root32_two_clusters() {
    let (blocks, a, b) = fat32_two_cluster_dir();
    let vol = g32a();
    let mut cache = BlockCache::new(SymDisk::new(0, blocks));
    let k: usize = kani::any();
    kani::assume(k < 32);
    let mut n = 0usize;
    let mut kth: Option<DirEntry> = None;
    let r = vol.iterate_dir(&mut cache, &root16_dirinfo(), |de| {
        if n == k {
            kth = Some(de.clone());
        }
        n += 1;
    });
    assert!(r.is_ok(), "dir.list: listing failed without a device error");
    let (want_n, want_k) = spec_kth_live(&[&a, &b], k);
    assert!(n == want_n, "dir.list: number of entries reported != number of live slots before the end marker");
    match (kth, want_k) {
        (Some(e), Some((bi, s))) => {
            let blk = if bi == 0 { &a } else { &b };
            assert!(slot_matches_entry(&blk.contents, s, &e, true), "dir.list: k-th reported entry is not the k-th live slot / fields differ from disk");
        }
        (None, None) => {}
        _ => assert!(false, "dir.list: order / count mismatch"),
    }
    kani::cover!(want_n == 32);
    kani::cover!(want_n == 17 && k == 16);
    kani::cover!(want_n == 16);
}

/// FAT16 sub-directory spanning two clusters (3 -> 5 -> end).
#[kani::proof]
#[kani::unwind(18)]
fn c06_find_subdir16_two_clusters() {
    let mut blocks: [Block; G16A_N] = zero_blocks();
    {
        let f = &mut blocks[G16A_FAT as usize].contents;
        put16(f, 0, 0xFFF8);
        put16(f, 2, 0xFFFF);
        put16(f, 4, 0xFFFF); // 2: a file
        put16(f, 6, 5); // 3 -> 5
        put16(f, 8, 0); // 4 free
        put16(f, 10, 0xFFFF); // 5 end
    }
    blocks[(G16A_DATA + 1) as usize] = full_concrete_dir_block(); // cluster 3: 16 live entries, concrete
    blocks[(G16A_DATA + 3) as usize] = any_block(); // cluster 5: fully symbolic
    blocks[(G16A_DATA + 2) as usize] = any_block(); // cluster 4: stale contents, not part of the directory
    let a = blocks[(G16A_DATA + 1) as usize].clone();
    let b = blocks[(G16A_DATA + 3) as usize].clone();
    let vol = g16a();
    let mut cache = BlockCache::new(SymDisk::new(0, blocks));
    let name: [u8; 11] = kani::any();
    kani::assume(name[0] != 0x00);
    let di = DirectoryInfo { raw_directory: crate::filesystem::RawDirectory(crate::filesystem::Handle(7)), raw_volume: crate::RawVolume(crate::filesystem::Handle(1)), cluster: ClusterId(3) };
    let r = vol.find_directory_entry(&mut cache, &di, &ShortFileName { contents: name });
    let want = spec_find(&[&a, &b], &name);
    match (&r, want) {
        (Ok(e), Some((bi, s))) => {
            let blk = if bi == 0 { &a } else { &b };
            assert!(slot_matches_entry(&blk.contents, s, e, false), "dir.lookup: entry returned is not the first matching slot / fields differ from disk");
            assert!(e.entry_block.0 == if bi == 0 { G16A_DATA + 1 } else { G16A_DATA + 3 }, "dir.lookup: entry_block does not follow the cluster chain");
        }
        (Err(Error::NotFound), None) => {}
        (Ok(_), None) => assert!(false, "dir.lookup: found a name that is not in the directory (or lies past the end marker)"),
        (Err(_), Some(_)) => assert!(false, "dir.lookup: a name present in the directory was not found"),
        (Err(_), None) => assert!(false, "dir.lookup: wrong error for a missing name"),
    }
    kani::cover!(matches!(want, Some((1, 3))));
    kani::cover!(want.is_none());
}

// ===================================================== directory mutation ===

fn spec_time(ts: &crate::filesystem::Timestamp) -> u16 {
    ((ts.hours as u16) << 11) | ((ts.minutes as u16) << 5) | (ts.seconds as u16 / 2)
}
fn spec_date(ts: &crate::filesystem::Timestamp) -> u16 {
    ((ts.year_since_1970 as u16 - 10) << 9) | ((ts.zero_indexed_month as u16 + 1) << 5) | (ts.zero_indexed_day as u16 + 1)
}
/// byte `i` (0..32) of the FAT directory slot for the given fields (FAT spec layout)
fn spec_slot_byte(i: usize, name: &[u8; 11], attr: u8, cluster: u32, size: u32, ctime: &crate::filesystem::Timestamp, mtime: &crate::filesystem::Timestamp, fat32: bool) -> u8 {
    let w = |v: u16, hi: bool| if hi { (v >> 8) as u8 } else { v as u8 };
    match i {
        0..=10 => name[i],
        11 => attr,
        12 | 13 => 0,
        14 | 15 => w(spec_time(ctime), i == 15),
        16 | 17 => w(spec_date(ctime), i == 17),
        18 | 19 => 0,
        20 | 21 => {
            if fat32 {
                w((cluster >> 16) as u16, i == 21)
            } else {
                0
            }
        }
        22 | 23 => w(spec_time(mtime), i == 23),
        24 | 25 => w(spec_date(mtime), i == 25),
        26 | 27 => w(cluster as u16, i == 27),
        _ => (size >> (8 * (i - 28))) as u8,
    }
}

/// write_new_directory_entry into a fully symbolic FAT16 root: the first free
/// slot (0x00 or 0xE5) receives exactly the new entry, every other byte of the
/// directory is preserved, only the root block is written; a full root gives
/// NotEnoughSpace and writes nothing (in particular nothing past the root region).
#[kani::proof]
#[kani::unwind(130)]
fn c03_new_entry_root16() {
    let mut blocks: [Block; G16A_N] = zero_blocks();
    // first byte of slots 0..=3 and 15 symbolic (free 0x00, deleted 0xE5 or live), all
    // other bytes concrete (16 entries X0..XF): the first free slot is one of
    // 0,1,2,3,15 or none.  What the slot is filled with is C18's (serialize layout)
    // and is re-checked here for a concrete name with symbolic attributes.
    blocks[G16A_ROOT as usize] = full_concrete_dir_block();
    {
        let r = &mut blocks[G16A_ROOT as usize].contents;
        r[0] = kani::any();
        r[32] = kani::any();
        r[64] = kani::any();
        r[96] = kani::any();
        r[480] = kani::any();
    }
    blocks[G16A_DATA as usize] = any_block(); // first data cluster: must never be touched
    let root = blocks[G16A_ROOT as usize].clone();
    let mut vol = g16a();
    let mut cache = BlockCache::new(SymDisk::new(0, blocks));
    let name: [u8; 11] = *b"NEW     TXT";
    let attr: u8 = kani::any();
    let now = fixed_timestamp();
    let r = vol.write_new_directory_entry(&mut cache, &Clock(now), ClusterId::ROOT_DIR, ShortFileName { contents: name }, Attributes::create_from_fat(attr));
    // spec: first slot with first byte 0x00 or 0xE5
    let mut t = 16usize;
    let mut s = 16usize;
    while s > 0 {
        s -= 1;
        let f = root.contents[32 * s];
        if f == 0x00 || f == 0xE5 {
            t = s;
        }
    }
    let dev = vk_bd::dev(&cache);
    let post = dev.block(G16A_ROOT);
    match &r {
        Ok(e) => {
            assert!(t < 16, "dir.create: succeeded although the directory has no free slot");
            assert!(e.entry_block.0 == G16A_ROOT && e.entry_offset == 32 * t as u32, "dir.create: entry not placed in the first free slot");
            assert!(e.cluster.0 == 0 && e.size == 0 && e.name.contents == name && e.attributes.0 == attr, "dir.create: returned entry fields");
            // every byte of the block, at concrete positions
            let mut s = 0;
            while s < 16 {
                let mut i = 0;
                while i < 32 {
                    let p = 32 * s + i;
                    if s == t {
                        assert!(post.contents[p] == spec_slot_byte(i, &name, attr, 0, 0, &now, &now, false), "dir.create: slot bytes != FAT layout of the new entry (name, attributes, cluster 0, size 0, ctime = mtime = now)");
                    } else {
                        assert!(post.contents[p] == root.contents[p], "dir.frame: creating an entry changed a byte outside its slot");
                    }
                    i += 1;
                }
                s += 1;
            }
            assert!(dev.nwrites.get() == 1 && dev.wrote(G16A_ROOT), "write.region: creating an entry wrote something other than the directory block");
        }
        Err(e) => {
            assert!(t == 16, "dir.create: failed although a free slot exists");
            assert!(matches!(e, Error::NotEnoughSpace), "dir.create: wrong error for a full fixed-size root");
            assert!(dev.nwrites.get() == 0, "write.region: failed create wrote to the device");
        }
    }
    kani::cover!(t == 15 && root.contents[32 * 15] == 0xE5);
    kani::cover!(t == 16);
    kani::cover!(t == 0 && root.contents[0] == 0x00);
}

/// delete_directory_entry: the first slot matching the name before the end
/// marker gets the deleted mark, nothing else changes.
#[kani::proof]
#[kani::unwind(18)]
fn c03_delete_entry_root16() {
    let mut blocks: [Block; G16A_N] = zero_blocks();
    blocks[G16A_ROOT as usize] = any_block();
    let root = blocks[G16A_ROOT as usize].clone();
    let vol = g16a();
    let mut cache = BlockCache::new(SymDisk::new(0, blocks));
    let name: [u8; 11] = kani::any();
    kani::assume(name[0] != 0x00);
    let r = vol.delete_directory_entry(&mut cache, &root16_dirinfo(), &ShortFileName { contents: name });
    let want = spec_find(&[&root], &name);
    let dev = vk_bd::dev(&cache);
    let post = dev.block(G16A_ROOT);
    let p: usize = kani::any();
    kani::assume(p < 512);
    match (&r, want) {
        (Ok(()), Some((_, s))) => {
            if p == 32 * s {
                assert!(post.contents[p] == 0xE5, "dir.delete: slot not marked deleted");
            } else {
                assert!(post.contents[p] == root.contents[p], "dir.frame: deleting an entry changed a byte other than the slot's first");
            }
            assert!(dev.nwrites.get() == 1 && dev.wrote(G16A_ROOT), "write.region: delete wrote something other than the directory block");
        }
        (Err(Error::NotFound), None) => assert!(dev.nwrites.get() == 0, "dir.delete: NotFound but the device was written"),
        _ => assert!(false, "dir.delete: result does not match the directory contents"),
    }
    kani::cover!(matches!(want, Some((_, 15))));
    kani::cover!(want.is_none());
}

/// write_entry_to_disk (what flush/close uses): the owned slot holds exactly
/// the entry's FAT layout, every other byte of the block is preserved.
fn write_entry(fat32: bool, slot: usize) {
    let mut blocks: [Block; G16A_N] = zero_blocks();
    blocks[G16A_ROOT as usize] = any_block();
    let root = blocks[G16A_ROOT as usize].clone();
    let mut vol = g16a();
    if fat32 {
        vol.fat_specific_info = FatSpecificInfo::Fat32(Fat32Info { first_root_dir_cluster: ClusterId(2), info_location: BlockIdx(1) });
    }
    let mut cache = BlockCache::new(SymDisk::new(0, blocks));
    let name: [u8; 11] = kani::any();
    let attr: u8 = kani::any();
    let cluster: u32 = kani::any();
    kani::assume(cluster <= if fat32 { 0x0FFF_FFFF } else { 0xFFFF });
    let size: u32 = kani::any();
    let (ct, mt) = (any_timestamp(), any_timestamp());
    let e = DirEntry { name: ShortFileName { contents: name }, mtime: mt, ctime: ct, attributes: Attributes::create_from_fat(attr), cluster: ClusterId(cluster), size, entry_block: BlockIdx(G16A_ROOT), entry_offset: 32 * slot as u32 };
    let r = vol.write_entry_to_disk(&mut cache, &e);
    assert!(r.is_ok(), "dir.update: failed without a device error");
    let dev = vk_bd::dev(&cache);
    let post = dev.block(G16A_ROOT);
    let mut p = 0;
    while p < 512 {
        if p / 32 == slot {
            assert!(post.contents[p] == spec_slot_byte(p % 32, &name, attr, cluster, size, &ct, &mt, fat32), "dir.update: slot bytes != FAT layout of the entry (size, first cluster, attributes, mtime, unchanged ctime)");
        } else {
            assert!(post.contents[p] == root.contents[p], "dir.frame: updating an entry changed a byte outside its slot");
        }
        p += 1;
    }
    assert!(dev.nwrites.get() == 1 && dev.wrote(G16A_ROOT), "write.region: entry update wrote something other than the entry's block");
    kani::cover!(size == u32::MAX);
}
#[kani::proof]
#[kani::unwind(514)]
fn c02_write_entry_fat16_s0() {
    write_entry(false, 0);
}
#[kani::proof]
#[kani::unwind(514)]
fn c02_write_entry_fat16_s15() {
    write_entry(false, 15);
}
#[kani::proof]
#[kani::unwind(514)]
fn c02_write_entry_fat32_s7() {
    write_entry(true, 7);
}

// ------------------------------------------------------------ info sector ---

/// update_info_sector (FAT32): writes the in-memory free count / next-free
/// hint at bytes 488..496 of the info sector, preserves every other byte
/// (signatures!), writes only that sector; unknown (None) values are left as
/// found; FAT16 writes nothing.
#[kani::proof]
#[kani::unwind(514)]
fn c16_update_info_sector() {
    let mut blocks: [Block; G32A_N] = zero_blocks();
    blocks[G32A_INFO as usize] = any_block();
    let pre = blocks[G32A_INFO as usize].clone();
    let mut vol = g32a();
    vol.free_clusters_count = if kani::any() { Some(kani::any()) } else { None };
    vol.next_free_cluster = if kani::any() { Some(ClusterId(kani::any())) } else { None };
    let mut cache = BlockCache::new(SymDisk::new(0, blocks));
    let r = vol.update_info_sector(&mut cache);
    assert!(r.is_ok(), "info.update: failed without a device error");
    let dev = vk_bd::dev(&cache);
    let post = dev.block(G32A_INFO);
    match vol.free_clusters_count {
        Some(n) => assert!(le32(&post.contents, 488) == n, "info.count: stored free-cluster count != in-memory count"),
        None => assert!(le32(&post.contents, 488) == le32(&pre.contents, 488), "info.count: unknown count must be left as found"),
    }
    match vol.next_free_cluster {
        Some(c) => assert!(le32(&post.contents, 492) == c.0, "info.hint: stored next-free hint != in-memory hint"),
        None => assert!(le32(&post.contents, 492) == le32(&pre.contents, 492), "info.hint: unknown hint must be left as found"),
    }
    let mut p = 0;
    while p < 512 {
        if !(p >= 488 && p < 496) {
            assert!(post.contents[p] == pre.contents[p], "info.frame: info-sector update changed a byte outside the two record fields");
        }
        p += 1;
    }
    let w = dev.nwrites.get();
    assert!(w <= 1 && (w == 0 || dev.wrote(G32A_INFO)), "write.region: info update wrote something other than the info sector");
    if vol.free_clusters_count.is_none() && vol.next_free_cluster.is_none() {
        assert!(w == 0, "info.update: nothing known, nothing to write");
    }
    kani::cover!(w == 1 && vol.free_clusters_count.is_none());
    kani::cover!(w == 0);
}

// --------------------------------------------------- truncate_cluster_chain ---

/// truncate_cluster_chain on a concrete chain shape (FAT16 entry width; the
/// free-space record fields are FAT-type independent): `chain` lists the
/// file's clusters in order; the other clusters hold `other`; free count and
/// hint symbolic.  Afterwards the first cluster ends the chain, every other
/// member is free, nothing else changed, and the free-cluster record moved by
/// exactly the number of clusters freed.
fn truncate16<const L: usize>(chain: [u32; L], other: u16) {
    let mut blocks: [Block; G16A_N] = zero_blocks();
    {
        let f = &mut blocks[G16A_FAT as usize].contents;
        put16(f, 0, 0xFFF8);
        put16(f, 2, 0xFFFF);
        let mut c = 2;
        while c < 6 {
            put16(f, 2 * c, other);
            c += 1;
        }
        let mut i = 0;
        while i < L {
            let v = if i + 1 < L { chain[i + 1] as u16 } else { 0xFFFF };
            put16(f, 2 * chain[i] as usize, v);
            i += 1;
        }
    }
    let pre = blocks[G16A_FAT as usize].clone();
    let mut vol = g16a();
    let count0: Option<u32> = if kani::any() { Some(kani::any()) } else { None };
    kani::assume(count0.map_or(true, |n| n <= 0xFFFF_FFF0));
    vol.free_clusters_count = count0;
    let hint0: Option<u32> = if kani::any() { Some(kani::any()) } else { None };
    vol.next_free_cluster = hint0.map(ClusterId);
    let mut cache = BlockCache::new(SymDisk::new(0, blocks));
    let r = vol.truncate_cluster_chain(&mut cache, ClusterId(chain[0]));
    assert!(r.is_ok(), "truncate: failed on a well-formed chain");
    let dev = vk_bd::dev(&cache);
    let post = dev.block(G16A_FAT);
    assert!(f16(&post, chain[0]) >= 0xFFF8, "truncate: kept cluster does not end the chain");
    let mut i = 1;
    while i < L {
        assert!(f16(&post, chain[i]) == 0, "truncate: a cluster of the removed tail is not free");
        i += 1;
    }
    let pp: usize = kani::any();
    kani::assume(pp >= 16 && pp < 512);
    assert!(post.contents[pp] == pre.contents[pp], "fat.frame: truncate changed FAT bytes beyond the volume's entries");
    let mut q = 0u32;
    while q < 8 {
        let mut in_chain = false;
        i = 0;
        while i < L {
            if chain[i] == q {
                in_chain = true;
            }
            i += 1;
        }
        if !in_chain {
            assert!(f16(&post, q) == f16(&pre, q), "fat.frame: truncate changed a FAT entry outside the chain");
        }
        q += 1;
    }
    let freed = L as u32 - 1;
    match (count0, vol.free_clusters_count) {
        (Some(a), Some(b)) => assert!(b == a + freed, "info.count: free-cluster count did not grow by the number of clusters freed"),
        (None, None) => {}
        _ => assert!(false, "info.count: unknown count must stay unknown"),
    }
    if freed > 0 {
        if let Some(h) = vol.next_free_cluster {
            assert!(hint0 == Some(h.0) || (h.0 >= 2 && h.0 < 6), "info.hint: next-free hint outside the volume after truncate");
        }
    }
    kani::cover!(count0 == Some(0));
    kani::cover!(count0.is_none() && hint0.is_none());
}
#[kani::proof]
#[kani::unwind(12)]
fn c16_truncate16_chain3() {
    truncate16([3, 5, 2], 0xFFFF);
}
#[kani::proof]
#[kani::unwind(12)]
fn c16_truncate16_chain2() {
    truncate16([4, 2], 0);
}
#[kani::proof]
#[kani::unwind(12)]
fn c16_truncate16_chain1() {
    truncate16([5], 0xFFFF);
}
#[kani::proof]
#[kani::unwind(12)]
fn c16_truncate16_chain4() {
    truncate16([2, 3, 4, 5], 0);
}

// ======================================================= crash points (C10/C09) ===
// SymDisk::crash_at = k: `persisted` receives only the first k block writes, i.e. it is
// exactly the medium as a power cut after k writes leaves it (the library itself
// keeps running on the live image).

fn fat32_concrete(entries: [u32; 4]) -> Block {
    let mut b = Block::new();
    put32(&mut b.contents, 0, 0x0FFF_FFF8);
    put32(&mut b.contents, 4, 0x0FFF_FFFF);
    let mut c = 0;
    while c < 4 {
        put32(&mut b.contents, 8 + 4 * c, entries[c]);
        c += 1;
    }
    b
}

/// every link of the chain starting at `first` leads to an allocated, in-range
/// cluster and the chain ends with an end-of-chain mark within 4 steps
fn chain_sound32(fat: &Block, first: u32) -> bool {
    let mut c = first;
    let mut ok = true;
    let mut done = false;
    let mut i = 0;
    while i < 5 {
        if !done {
            if c < 2 || c >= 6 {
                ok = false;
                done = true;
            } else {
                let e = f32(fat, c) & 0x0FFF_FFFF;
                if e >= 0x0FFF_FFF8 {
                    done = true;
                } else if e == 0 || e == 1 || e == 0x0FFF_FFF7 {
                    ok = false; // free / reserved / bad
                    done = true;
                } else {
                    c = e;
                }
            }
        }
        i += 1;
    }
    ok && done
}

fn fat16_concrete(entries: [u16; 4]) -> Block {
    let mut b = Block::new();
    put16(&mut b.contents, 0, 0xFFF8);
    put16(&mut b.contents, 2, 0xFFFF);
    let mut c = 0;
    while c < 4 {
        put16(&mut b.contents, 4 + 2 * c, entries[c]);
        c += 1;
    }
    b
}
fn chain_sound16(fat: &Block, first: u32) -> bool {
    let mut c = first;
    let mut ok = true;
    let mut done = false;
    let mut i = 0;
    while i < 5 {
        if !done {
            if c < 2 || c >= 6 {
                ok = false;
                done = true;
            } else {
                let e = f16(fat, c);
                if e >= 0xFFF8 {
                    done = true;
                } else if e == 0 || e == 1 || e == 0xFFF7 {
                    ok = false; // free / reserved / bad
                    done = true;
                } else {
                    c = e as u32;
                }
            }
        }
        i += 1;
    }
    ok && done
}

/// Extending a chain by one cluster, power cut after any number of writes: the
/// file's chain on the medium never leads to a free cluster; an unrelated
/// flushed file (cluster 5) keeps its FAT entry and its data.
#[kani::proof]
#[kani::unwind(514)]
fn c10_crash_alloc_extend16() {
    let mut blocks: [Block; G16A_N] = zero_blocks();
    // file: 3 -> 2 (tail 2); cluster 4 free; cluster 5: another flushed file
    blocks[G16A_FAT as usize] = fat16_concrete([0xFFFF, 2, 0, 0xFFFF]);
    blocks[(G16A_DATA + 3) as usize] = any_block();
    let other = blocks[(G16A_DATA + 3) as usize].clone();
    let mut vol = g16a();
    let mut dev = SymDisk::new(0, blocks);
    let k: u32 = kani::any();
    kani::assume(k <= 6);
    dev.crash_at = Some(k);
    let mut cache = BlockCache::new(dev);
    let _ = vol.alloc_cluster(&mut cache, Some(ClusterId(2)), false);
    let dev = vk_bd::dev(&cache);
    let fat = dev.pblock(G16A_FAT);
    assert!(chain_sound16(&fat, 3), "crash.chain: after a power cut the file's chain leads to a free / bad / out-of-range cluster");
    assert!(f16(&fat, 5) == 0xFFFF, "crash.flushed: FAT entry of an unrelated flushed file changed");
    let od = dev.pblock(G16A_DATA + 3);
    let mut p = 0;
    while p < 512 {
        assert!(od.contents[p] == other.contents[p], "crash.flushed: data of an unrelated flushed file changed");
        p += 1;
    }
    kani::cover!(k == 1);
    kani::cover!(k >= dev.nwrites.get());
}

/// Truncating a 3-cluster chain, power cut after any number of writes.
#[kani::proof]
#[kani::unwind(16)]
fn c10_crash_truncate16() {
    let mut blocks: [Block; G16A_N] = zero_blocks();
    // file: 3 -> 5 -> 2; cluster 4: another flushed file
    blocks[G16A_FAT as usize] = fat16_concrete([0xFFFF, 5, 0xFFFF, 2]);
    let mut vol = g16a();
    let mut dev = SymDisk::new(0, blocks);
    let k: u32 = kani::any();
    kani::assume(k <= 6);
    dev.crash_at = Some(k);
    let mut cache = BlockCache::new(dev);
    let _ = vol.truncate_cluster_chain(&mut cache, ClusterId(3));
    let dev = vk_bd::dev(&cache);
    let fat = dev.pblock(G16A_FAT);
    assert!(chain_sound16(&fat, 3), "crash.chain: after a power cut during truncation the file's chain leads to a free cluster");
    assert!(f16(&fat, 4) == 0xFFFF, "crash.flushed: FAT entry of an unrelated flushed file changed");
    kani::cover!(k == 1);
    kani::cover!(k == 2);
    kani::cover!(k >= dev.nwrites.get());
}

/// make_dir in the FAT16 root, power cut after any number of writes: a live
/// sub-directory entry on the medium always has its own, allocated,
/// initialised cluster; other directory entries are untouched.
#[kani::proof]
#[kani::unwind(34)]
fn c10_crash_make_dir16() {
    let mut blocks: [Block; G16A_N] = zero_blocks();
    {
        let f = &mut blocks[G16A_FAT as usize].contents;
        put16(f, 0, 0xFFF8);
        put16(f, 2, 0xFFFF);
        put16(f, 4, 0xFFFF); // 2: a flushed file
        put16(f, 6, 0); // 3 free (stale contents)
        put16(f, 8, 0);
        put16(f, 10, 0);
    }
    {
        // root: slot 0 = flushed file KEEP.DAT (cluster 2), rest end of directory
        let r = &mut blocks[G16A_ROOT as usize].contents;
        let name = *b"KEEP    DAT";
        let mut i = 0;
        while i < 11 {
            r[i] = name[i];
            i += 1;
        }
        r[11] = 0x20;
        put16(r, 26, 2);
        put32(r, 28, 100);
    }
    blocks[(G16A_DATA + 1) as usize] = any_block(); // free cluster 3 holds stale bytes
    let root0 = blocks[G16A_ROOT as usize].clone();
    let mut vol = g16a();
    let mut dev = SymDisk::new(0, blocks);
    let k: u32 = kani::any();
    kani::assume(k <= 10);
    dev.crash_at = Some(k);
    let mut cache = BlockCache::new(dev);
    let name = ShortFileName { contents: *b"SUB        " };
    let _ = vol.make_dir(&mut cache, &Clock(fixed_timestamp()), ClusterId::ROOT_DIR, name, Attributes::create_from_fat(Attributes::DIRECTORY));
    let dev = vk_bd::dev(&cache);
    let root = dev.pblock(G16A_ROOT);
    let fat = dev.pblock(G16A_FAT);
    // the flushed file's entry is intact
    let mut p = 0;
    while p < 32 {
        assert!(root.contents[p] == root0.contents[p], "crash.flushed: directory entry of an unrelated flushed file changed");
        p += 1;
    }
    assert!(le16(&fat.contents, 4) == 0xFFFF, "crash.flushed: FAT entry of an unrelated flushed file changed");
    // the directory takes the lowest free cluster (3); the data cluster that physically
    // follows it (4) and the flushed file's cluster (2) are never written
    assert!(!dev.wrote(G16A_DATA) && !dev.wrote(G16A_DATA + 2) && !dev.wrote(G16A_DATA + 3), "write.region: mkdir wrote a data cluster other than the new directory's");
    // the new sub-directory entry (slot 1), if visible
    if root.contents[32] != 0x00 && root.contents[32] != 0xE5 && root.contents[32 + 11] & 0x10 != 0 {
        let c = le16(&root.contents, 32 + 26) as u32;
        assert!(c >= 2 && c < 6, "crash.subdir: sub-directory entry on the medium has no cluster of its own");
        assert!(le16(&fat.contents, 2 * c as usize) >= 0xFFF8, "crash.subdir: sub-directory entry points at a cluster that is not allocated");
        let d = dev.pblock(G16A_DATA + c - 2);
        assert!(d.contents[0] == b'.' && d.contents[32] == b'.' && d.contents[33] == b'.' && d.contents[64] == 0, "crash.subdir: sub-directory cluster exposes uninitialised contents (no dot entries / stale slots)");
    }
    kani::cover!(k == 1);
    kani::cover!(k >= dev.nwrites.get());
}

// ===================================================== device faults (C11) ===

/// BlockCache: a failed read (buffer scribbled) must not leave the cache
/// claiming to hold a block: the next read of the previously cached block goes
/// to the device again and returns its real contents.
#[kani::proof]
#[kani::unwind(12)]
fn c11_cache_invalidated_on_failed_read() {
    let mut blocks: [Block; G16A_N] = zero_blocks();
    blocks[2] = any_block();
    blocks[3] = any_block();
    let b2 = blocks[2].clone();
    let mut dev = SymDisk::new(0, blocks);
    dev.fail_at = Some(1); // second device call fails
    let mut cache = BlockCache::new(dev);
    let r1 = cache.read(BlockIdx(2)).map(|b| b.contents[7]);
    assert!(r1 == Ok(b2.contents[7]), "cache: first read");
    let r2 = cache.read(BlockIdx(3)).map(|b| b.contents[7]);
    assert!(r2.is_err(), "fault.reported: failed device read returned Ok");
    let p: usize = kani::any();
    kani::assume(p < 512);
    let r3 = cache.read_mut(BlockIdx(2)).map(|b| b.contents[p]);
    assert!(r3 == Ok(b2.contents[p]), "fault.cache: after a failed read the cache serves scribbled bytes as the previously cached block");
    kani::cover!(vk_bd::dev(&cache).nreads.get() == 3);
}

/// Device fault at a concrete call index `n` of a lookup / listing over a
/// FAT16 sub-directory of two clusters (3 -> 5; the device calls are: read
/// cluster 3, read the FAT, read cluster 5).  If the fault fired the result is
/// the device error - never NotFound, never Ok with a truncated listing.
fn two_cluster_dir_image() -> [Block; G16A_N] {
    let mut blocks: [Block; G16A_N] = zero_blocks();
    {
        let f = &mut blocks[G16A_FAT as usize].contents;
        put16(f, 0, 0xFFF8);
        put16(f, 2, 0xFFFF);
        put16(f, 4, 0xFFFF);
        put16(f, 6, 5);
        put16(f, 8, 0);
        put16(f, 10, 0xFFFF);
    }
    blocks[(G16A_DATA + 1) as usize] = full_concrete_dir_block();
    blocks[(G16A_DATA + 3) as usize] = full_concrete_dir_block();
    blocks
}
fn subdir3() -> DirectoryInfo {
    DirectoryInfo { raw_directory: crate::filesystem::RawDirectory(crate::filesystem::Handle(7)), raw_volume: crate::RawVolume(crate::filesystem::Handle(1)), cluster: ClusterId(3) }
}
fn find_fault(n: u32) {
    let mut dev = SymDisk::new(0, two_cluster_dir_image());
    dev.fail_at = Some(n);
    let vol = g16a();
    let mut cache = BlockCache::new(dev);
    let name = ShortFileName { contents: *b"NOSUCH  TXT" };
    let r = vol.find_directory_entry(&mut cache, &subdir3(), &name);
    let dev = vk_bd::dev(&cache);
    if dev.failed.get() {
        assert!(matches!(r, Err(Error::DeviceError(_))), "fault.reported: a device error during lookup was turned into NotFound / an entry");
    } else {
        assert!(matches!(r, Err(Error::NotFound)), "dir.lookup: missing name not reported as NotFound");
    }
    kani::cover!(dev.failed.get() == (n < 3));
}
fn iterate_fault(n: u32) {
    let mut dev = SymDisk::new(0, two_cluster_dir_image());
    dev.fail_at = Some(n);
    let vol = g16a();
    let mut cache = BlockCache::new(dev);
    let mut count = 0u32;
    let r = vol.iterate_dir(&mut cache, &subdir3(), |_| count += 1);
    let dev = vk_bd::dev(&cache);
    if dev.failed.get() {
        assert!(r.is_err(), "fault.reported: listing returned Ok (truncated) although a device read failed");
    } else {
        assert!(r.is_ok() && count == 32, "dir.list: complete listing expected without a fault");
    }
    kani::cover!(dev.failed.get() == (n < 3));
}
#[kani::proof]
#[kani::unwind(34)]
fn c11_find_fault_dir_block() {
    find_fault(0);
}
#[kani::proof]
#[kani::unwind(34)]
fn c11_find_fault_fat_read() {
    find_fault(1);
}
#[kani::proof]
#[kani::unwind(34)]
fn c11_find_fault_second_cluster() {
    find_fault(2);
}
#[kani::proof]
#[kani::unwind(34)]
fn c11_iterate_fault_dir_block() {
    iterate_fault(0);
}
#[kani::proof]
#[kani::unwind(34)]
fn c11_iterate_fault_fat_read() {
    iterate_fault(1);
}
#[kani::proof]
#[kani::unwind(34)]
fn c11_iterate_no_fault() {
    iterate_fault(9);
}

/// Lookup in the fixed FAT16 root whose only device read fails: DeviceError.
#[kani::proof]
#[kani::unwind(34)]
fn c11_find_fault_root16() {
    let mut blocks: [Block; G16A_N] = zero_blocks();
    blocks[G16A_ROOT as usize] = full_concrete_dir_block();
    let mut dev = SymDisk::new(0, blocks);
    dev.fail_at = Some(0);
    let vol = g16a();
    let mut cache = BlockCache::new(dev);
    let name = ShortFileName { contents: *b"NOSUCH  TXT" };
    let r = vol.find_directory_entry(&mut cache, &root16_dirinfo(), &name);
    assert!(matches!(r, Err(Error::DeviceError(_))), "fault.reported: a device error during lookup was turned into NotFound / an entry");
    let r2 = vol.delete_directory_entry(&mut cache, &root16_dirinfo(), &name);
    assert!(matches!(r2, Err(Error::NotFound)), "fault.retry: after a transient fault the retried call must give the correct answer");
    kani::cover!(vk_bd::dev(&cache).failed.get());
}

/// Creating / deleting another file's directory entry in the block that also
/// holds a flushed file's entry, power cut after any number of writes: the
/// flushed file's entry, FAT entry and data are unchanged on the medium, and
/// the other slot is either entirely old or entirely new.
fn crash_dir_entry(delete: bool) {
    let mut blocks: [Block; G16A_N] = zero_blocks();
    blocks[G16A_FAT as usize] = fat16_concrete([0xFFFF, 0xFFFF, 0, 0]);
    {
        let r = &mut blocks[G16A_ROOT as usize].contents;
        let keep = *b"KEEP    DAT";
        let other = *b"OTHER   DAT";
        let mut i = 0;
        while i < 11 {
            r[i] = keep[i];
            if delete {
                r[32 + i] = other[i];
            }
            i += 1;
        }
        r[11] = 0x20;
        put16(r, 26, 2);
        put32(r, 28, kani::any());
        if delete {
            r[32 + 11] = 0x20;
            put16(r, 32 + 26, 3);
        }
    }
    blocks[G16A_DATA as usize] = any_block();
    let root0 = blocks[G16A_ROOT as usize].clone();
    let data0 = blocks[G16A_DATA as usize].clone();
    let mut vol = g16a();
    let mut dev = SymDisk::new(0, blocks);
    let k: u32 = kani::any();
    kani::assume(k <= 3);
    dev.crash_at = Some(k);
    let mut cache = BlockCache::new(dev);
    let name = ShortFileName { contents: *b"OTHER   DAT" };
    if delete {
        let _ = vol.delete_directory_entry(&mut cache, &root16_dirinfo(), &name);
    } else {
        let _ = vol.write_new_directory_entry(&mut cache, &Clock(fixed_timestamp()), ClusterId::ROOT_DIR, name, Attributes::create_from_fat(0));
    }
    let dev = vk_bd::dev(&cache);
    let root = dev.pblock(G16A_ROOT);
    let fat = dev.pblock(G16A_FAT);
    let d = dev.pblock(G16A_DATA);
    let mut p = 0;
    while p < 32 {
        assert!(root.contents[p] == root0.contents[p], "crash.flushed: directory entry of an unrelated flushed file changed");
        p += 1;
    }
    p = 64;
    while p < 512 {
        assert!(root.contents[p] == root0.contents[p], "crash.frame: other directory slots changed");
        p += 1;
    }
    assert!(f16(&fat, 2) == 0xFFFF && f16(&fat, 3) == 0xFFFF, "crash.flushed: FAT entries changed by a directory-entry operation");
    p = 0;
    while p < 512 {
        assert!(d.contents[p] == data0.contents[p], "crash.flushed: data of an unrelated flushed file changed");
        p += 1;
    }
    kani::cover!(k == 0);
    kani::cover!(k >= dev.nwrites.get() && dev.nwrites.get() == 1);
}
#[kani::proof]
#[kani::unwind(514)]
fn c09_crash_create_entry16() {
    crash_dir_entry(false);
}
#[kani::proof]
#[kani::unwind(514)]
fn c09_crash_delete_entry16() {
    crash_dir_entry(true);
}

// ================================ truncate over an abstract FAT (stubbed IO) ===
// truncate_cluster_chain's logic (which entries it reads and writes, in which
// order, and how it moves the free-space record) does not depend on how FAT
// entries are stored.  Here `next_cluster` / `update_fat` are replaced
// (#[kani::stub]) by accessors of a ghost FAT of 8 entries whose contract is
// what c05_next_cluster_* and c04/c16_update_fat_* establish for the real
// functions; every FAT update is logged so that each prefix of the update
// sequence (= each possible power cut) can be examined.  With IO gone the
// chain topology can be fully symbolic.
static mut GFAT: [u32; 8] = [0; 8];
static mut GLOG_C: [u32; 8] = [0; 8];
static mut GLOG_V: [u32; 8] = [0; 8];
static mut GLOG_N: usize = 0;
const G_EOC: u32 = 0x0FFF_FFFF;

pub(crate) fn stub_next_cluster<D>(_this: &FatVolume, _bc: &mut BlockCache<D>, cluster: ClusterId) -> Result<ClusterId, Error<D::Error>>
where
    D: BlockDevice,
{
    let c = cluster.0 as usize;
    assert!(c < 8, "ghost FAT: next_cluster outside the modelled FAT");
    let e = unsafe { GFAT[c] };
    if e == 0 {
        Err(Error::UnterminatedFatChain)
    } else if e == 0x0FFF_FFF7 {
        Err(Error::BadCluster)
    } else if e >= 0x0FFF_FFF8 || e == 1 {
        Err(Error::EndOfFile)
    } else {
        Ok(ClusterId(e))
    }
}
pub(crate) fn stub_update_fat<D>(_this: &mut FatVolume, _bc: &mut BlockCache<D>, cluster: ClusterId, new_value: ClusterId) -> Result<(), Error<D::Error>>
where
    D: BlockDevice,
{
    let c = cluster.0 as usize;
    assert!(c >= 2 && c < 8, "ghost FAT: update_fat outside the volume's entries");
    let v = match new_value {
        ClusterId::END_OF_FILE => G_EOC,
        ClusterId::EMPTY => 0,
        x => x.0 & 0x0FFF_FFFF,
    };
    unsafe {
        GFAT[c] = v;
        assert!(GLOG_N < 8, "ghost FAT: update log full");
        GLOG_C[GLOG_N] = c as u32;
        GLOG_V[GLOG_N] = v;
        GLOG_N += 1;
    }
    Ok(())
}

// Cut stubs for the refused-open harnesses (vk_fsop::c07_open_r_*_cut): the
// calls they replace must never happen when an open is refused, so they only
// count; what truncation / entry creation do is decided by C16 / C03 harnesses.
pub(crate) static mut CUT_TRUNC_CALLS: u32 = 0;
pub(crate) static mut CUT_NEW_ENTRY_CALLS: u32 = 0;
pub(crate) static mut CUT_WRITE_ENTRY_CALLS: u32 = 0;
pub(crate) fn cut_calls() -> (u32, u32, u32) {
    unsafe { (CUT_TRUNC_CALLS, CUT_NEW_ENTRY_CALLS, CUT_WRITE_ENTRY_CALLS) }
}
pub(crate) fn stub_cut_write_entry<D>(_this: &FatVolume, _bc: &mut BlockCache<D>, _entry: &DirEntry) -> Result<(), Error<D::Error>>
where
    D: BlockDevice,
{
    unsafe {
        CUT_WRITE_ENTRY_CALLS += 1;
    }
    Ok(())
}
pub(crate) fn stub_cut_truncate<D>(_this: &mut FatVolume, _bc: &mut BlockCache<D>, _cluster: ClusterId) -> Result<(), Error<D::Error>>
where
    D: BlockDevice,
{
    unsafe {
        CUT_TRUNC_CALLS += 1;
    }
    Ok(())
}
pub(crate) fn stub_cut_new_entry<D, T>(_this: &mut FatVolume, _bc: &mut BlockCache<D>, _ts: &T, _dir: ClusterId, _name: ShortFileName, _att: Attributes) -> Result<DirEntry, Error<D::Error>>
where
    D: BlockDevice,
    T: TimeSource,
{
    unsafe {
        CUT_NEW_ENTRY_CALLS += 1;
    }
    Err(Error::NotEnoughSpace)
}

pub(crate) static mut CUT_FIND_CALLS: u32 = 0;
pub(crate) static mut CUT_FIND_FOUND: bool = false;
pub(crate) fn cut_find_set(found: bool) {
    unsafe {
        CUT_FIND_FOUND = found;
    }
}
pub(crate) fn cut_find_calls() -> u32 {
    unsafe { CUT_FIND_CALLS }
}
/// lookup stub for the table-full harnesses: counts, and answers "plain closed
/// file, cluster 3, 700 bytes" or NotFound as set by the harness
pub(crate) fn stub_cut_find<D>(_this: &FatVolume, _bc: &mut BlockCache<D>, _dir: &DirectoryInfo, name: &ShortFileName) -> Result<DirEntry, Error<D::Error>>
where
    D: BlockDevice,
{
    unsafe {
        CUT_FIND_CALLS += 1;
        if !CUT_FIND_FOUND {
            return Err(Error::NotFound);
        }
    }
    let mut e = DirEntry::new(name.clone(), Attributes::create_from_fat(0x20), ClusterId(3), fixed_timestamp(), BlockIdx(G16A_ROOT), 0);
    e.size = 700;
    Ok(e)
}
/// entry-creation stub that succeeds (table-full harnesses)
pub(crate) fn stub_cut_new_entry_ok<D, T>(_this: &mut FatVolume, _bc: &mut BlockCache<D>, _ts: &T, _dir: ClusterId, name: ShortFileName, att: Attributes) -> Result<DirEntry, Error<D::Error>>
where
    D: BlockDevice,
    T: TimeSource,
{
    unsafe {
        CUT_NEW_ENTRY_CALLS += 1;
    }
    Ok(DirEntry::new(name, att, ClusterId(0), fixed_timestamp(), BlockIdx(G16A_ROOT), 128))
}

/// length of the chain starting at `first` in `fat` (clusters 2..=5), 0 if malformed
fn ghost_chain_len(fat: &[u32; 8], first: u32) -> usize {
    let mut c = first;
    let mut n = 0;
    let mut ok = true;
    let mut done = false;
    let mut i = 0;
    while i < 5 {
        if !done {
            if c < 2 || c >= 6 {
                ok = false;
                done = true;
            } else {
                n += 1;
                let e = fat[c as usize];
                if e >= 0x0FFF_FFF8 {
                    done = true;
                } else if e < 2 || e == 0x0FFF_FFF7 {
                    ok = false;
                    done = true;
                } else {
                    c = e;
                }
            }
        }
        i += 1;
    }
    if ok && done && n <= 4 {
        n
    } else {
        0
    }
}

#[kani::proof]
#[kani::unwind(12)]
#[kani::stub(crate::fat::volume::FatVolume::next_cluster, stub_next_cluster)]
#[kani::stub(crate::fat::volume::FatVolume::update_fat, stub_update_fat)]
fn c16_truncate_any_chain_abstract_fat() {
    // arbitrary FAT over clusters 2..=5 (entries 6,7 = slack), arbitrary well-formed chain
    let mut fat0 = [0u32; 8];
    fat0[0] = 0x0FFF_FFF8;
    fat0[1] = G_EOC;
    let mut c = 2;
    while c < 6 {
        let e: u32 = kani::any();
        kani::assume(e == 0 || e >= 0x0FFF_FFF8 && e <= G_EOC || (e >= 2 && e < 6));
        fat0[c] = e;
        c += 1;
    }
    let first: u32 = kani::any();
    kani::assume(first >= 2 && first < 6);
    let len = ghost_chain_len(&fat0, first);
    kani::assume(len >= 1);
    unsafe {
        GFAT = fat0;
        GLOG_N = 0;
    }
    let mut vol = g32a();
    // any record value, stale and out-of-range ones included
    let count0: Option<u32> = if kani::any() { Some(kani::any()) } else { None };
    vol.free_clusters_count = count0;
    let hint0: Option<u32> = if kani::any() { Some(kani::any()) } else { None };
    vol.next_free_cluster = hint0.map(ClusterId);
    let blocks: [Block; G32A_N] = zero_blocks();
    let mut cache = BlockCache::new(SymDisk::new(0, blocks));
    let r = vol.truncate_cluster_chain(&mut cache, ClusterId(first));
    assert!(r.is_ok(), "truncate: failed on a well-formed chain");
    let fat1 = unsafe { GFAT };
    // result: first ends the chain, the former tail is free, everything else untouched
    assert!(fat1[first as usize] >= 0x0FFF_FFF8, "truncate: kept cluster does not end the chain");
    // walk the old chain
    let mut cur = first;
    let mut i = 0;
    let mut member = [false; 8];
    while i < 4 {
        if i < len {
            member[cur as usize] = true;
            if i > 0 {
                assert!(fat1[cur as usize] == 0, "truncate: a cluster of the removed tail is not free");
            }
            let e = fat0[cur as usize];
            if e >= 2 && e < 6 {
                cur = e;
            }
        }
        i += 1;
    }
    c = 0;
    while c < 8 {
        if !member[c] {
            assert!(fat1[c] == fat0[c], "fat.frame: truncate changed a FAT entry outside the chain");
        }
        c += 1;
    }
    // free-space record
    let freed = len as u32 - 1;
    match (count0, vol.free_clusters_count) {
        (Some(a), Some(b)) => assert!(b == a.saturating_add(freed), "info.count: free-cluster count did not grow by the number of clusters freed"),
        (None, None) => {}
        _ => assert!(false, "info.count: unknown count must stay unknown"),
    }
    if freed > 0 {
        if let Some(h) = vol.next_free_cluster {
            assert!(hint0 == Some(h.0) || (h.0 >= 2 && h.0 < 6), "info.hint: next-free hint outside the volume after truncate");
        }
    }
    // crash points: replay the update log prefix by prefix; after every prefix the chain
    // from `first` must be sound (never lead to a free entry)
    let k: usize = kani::any();
    let nlog = unsafe { GLOG_N };
    kani::assume(k <= nlog);
    let mut f = fat0;
    i = 0;
    while i < 8 {
        if i < k {
            let (lc, lv) = unsafe { (GLOG_C[i], GLOG_V[i]) };
            f[lc as usize] = lv;
        }
        i += 1;
    }
    assert!(ghost_chain_len(&f, first) >= 1, "crash.chain: after a power cut during truncation the file's chain leads to a free cluster");
    assert!(vk_bd::dev(&cache).ncalls.get() == 0, "stubbed FAT: device touched");
    kani::cover!(len == 4 && k == 2);
    kani::cover!(len == 1);
    kani::cover!(len == 3 && count0 == Some(7));
}


/// alloc_cluster(Some(prev)): the order of its FAT updates (logged by the stubbed
/// update_fat; the free-cluster scan runs on the real, unchanged FAT image): the
/// new cluster is marked end-of-chain *before* the previous tail is linked to
/// it, so that no prefix of the update sequence leaves the chain pointing at a
/// free cluster.
#[kani::proof]
#[kani::unwind(14)]
#[kani::stub(crate::fat::volume::FatVolume::update_fat, stub_update_fat)]
fn c10_alloc_update_order() {
    let mut blocks: [Block; G16A_N] = zero_blocks();
    // chain 3 -> 2 (tail 2), cluster 4 free, 5 used
    blocks[G16A_FAT as usize] = fat16_concrete([0xFFFF, 2, 0, 0xFFFF]);
    unsafe {
        GFAT = [0x0FFF_FFF8, G_EOC, G_EOC, 2, 0, G_EOC, 0, 0];
        GLOG_N = 0;
    }
    let fat0 = unsafe { GFAT };
    let mut vol = g16a();
    let mut cache = BlockCache::new(SymDisk::new(0, blocks));
    let r = vol.alloc_cluster(&mut cache, Some(ClusterId(2)), false);
    assert!(matches!(r, Ok(ClusterId(4))), "alloc: expected the only free cluster");
    let nlog = unsafe { GLOG_N };
    assert!(nlog == 2, "alloc: expected exactly two FAT updates (new cluster, previous tail)");
    let k: usize = kani::any();
    kani::assume(k <= nlog);
    let mut f = fat0;
    let mut i = 0;
    while i < 8 {
        if i < k {
            let (lc, lv) = unsafe { (GLOG_C[i], GLOG_V[i]) };
            f[lc as usize] = lv;
        }
        i += 1;
    }
    assert!(ghost_chain_len(&f, 3) >= 2, "crash.chain: after a power cut between the allocator's FAT updates the chain leads to a free cluster");
    kani::cover!(k == 1);
}

// ------------------------------------------- abstract allocator (stub) ---
// Used by the VolumeManager::write harnesses (vk_fsop): `alloc_cluster` is
// replaced by a stub that hands out the clusters the harness queued (the
// volume's free clusters) and performs the two FAT updates of the real
// allocator.  Its contract - Ok(c): c was free, FAT[c] = end-of-chain,
// FAT[prev] = c, nothing else changes; Err(NotEnoughSpace) iff no free cluster,
// FAT unchanged - is what c05_find_free* / c05_alloc16_* / c10_alloc_update_order
// establish for the real function.  The expensive free-cluster scans are thereby
// cut out of the write harnesses.
pub(crate) static mut GALLOC_QUEUE: [u32; 4] = [0; 4];
pub(crate) static mut GALLOC_PREV: [u32; 4] = [0; 4];
pub(crate) static mut GALLOC_N: usize = 0;

pub(crate) fn stub_alloc_cluster<D>(this: &mut FatVolume, bc: &mut BlockCache<D>, prev: Option<ClusterId>, _zero: bool) -> Result<ClusterId, Error<D::Error>>
where
    D: BlockDevice,
{
    let (i, c) = unsafe {
        let i = GALLOC_N;
        assert!(i < 4, "abstract allocator: more allocations than modelled");
        GALLOC_N += 1;
        GALLOC_PREV[i] = match prev {
            Some(p) => p.0,
            None => 0,
        };
        (i, GALLOC_QUEUE[i])
    };
    let _ = i;
    if c == 0 {
        return Err(Error::NotEnoughSpace);
    }
    this.update_fat(bc, ClusterId(c), ClusterId::END_OF_FILE)?;
    if let Some(p) = prev {
        this.update_fat(bc, p, ClusterId(c))?;
    }
    Ok(ClusterId(c))
}

// ====================== directory walkers over abstract blocks (stubbed) ===
// find_directory_entry / delete_directory_entry walk a directory's blocks and
// clusters and delegate each block to find_entry_in_block /
// delete_entry_in_block.  The per-block functions are decided on fully
// symbolic blocks (c06_find_root16, c03_delete_entry_root16); here they are
// replaced by stubs that log which block they were asked about and answer from
// a script, and next_cluster by the ghost FAT, so that the *walk* - which
// blocks, in which order, when to stop, what to do with errors - is decided
// for symbolic chains and scripts.
static mut WALK_LOG: [u32; 8] = [0; 8];
static mut WALK_N: usize = 0;
/// script: answer for the i-th visited block: 0 = NotFound, 1 = found, 2 = device error
static mut WALK_SCRIPT: [u8; 8] = [0; 8];

fn stub_find_entry_in_block<D>(_this: &FatVolume, _bc: &mut BlockCache<D>, _fat_type: FatType, _name: &ShortFileName, block_idx: BlockIdx) -> Result<DirEntry, Error<D::Error>>
where
    D: BlockDevice,
{
    let i = unsafe {
        let i = WALK_N;
        assert!(i < 8, "walk: more blocks visited than modelled");
        WALK_LOG[i] = block_idx.0;
        WALK_N += 1;
        i
    };
    match unsafe { WALK_SCRIPT[i] } {
        0 => Err(Error::NotFound),
        1 => Ok(DirEntry::new(ShortFileName { contents: *b"FOUND      " }, Attributes::create_from_fat(0x20), ClusterId(0), fixed_timestamp(), block_idx, 64)),
        _ => Err(Error::BadBlockSize(0xDEAD)), // stands for "some other error" (a device error cannot be fabricated generically)
    }
}

/// the blocks a directory occupies per the FAT specification: root16 = the fixed
/// region; otherwise every block of every cluster of the chain, in order
fn spec_dir_blocks16(fat: &[u32; 8], start: u32, bpc: u32, first_data: u32, lba: u32) -> ([u32; 8], usize) {
    let mut out = [0u32; 8];
    let mut n = 0;
    let mut c = start;
    let mut done = false;
    let mut i = 0;
    while i < 4 {
        if !done && c >= 2 && c < 6 {
            let mut b = 0;
            while b < 2 {
                if b < bpc && n < 8 {
                    out[n] = lba + first_data + (c - 2) * bpc + b;
                    n += 1;
                }
                b += 1;
            }
            let e = fat[c as usize];
            if e >= 2 && e < 6 {
                c = e;
            } else {
                done = true;
            }
        }
        i += 1;
    }
    (out, n)
}

fn walker_volume(fat32: bool, bpc: u8) -> FatVolume {
    let mut v = if fat32 { g32a() } else { g16a() };
    v.blocks_per_cluster = bpc;
    v
}

/// find_directory_entry over a sub-directory with a symbolic chain (1..3
/// clusters, any order), 1 or 2 blocks per cluster, symbolic script: visits
/// exactly the directory's blocks in order until the first block that does not
/// answer NotFound, returns that block's answer (entry or error), NotFound
/// after the last block.
fn walk_find(fat32: bool) {
    let mut fat0 = [0u32; 8];
    let mut c = 2;
    while c < 6 {
        let e: u32 = kani::any();
        kani::assume(e >= 0x0FFF_FFF8 && e <= G_EOC || (e >= 2 && e < 6));
        fat0[c] = e;
        c += 1;
    }
    let start: u32 = kani::any();
    kani::assume(start >= 2 && start < 6);
    let len = ghost_chain_len(&fat0, start);
    kani::assume(len >= 1 && len <= 3);
    let bpc: u8 = kani::any();
    kani::assume(bpc == 1 || bpc == 2);
    let script: [u8; 8] = kani::any();
    unsafe {
        GFAT = fat0;
        WALK_N = 0;
        WALK_SCRIPT = script;
    }
    let vol = walker_volume(fat32, bpc);
    let blocks: [Block; G32A_N] = zero_blocks();
    let mut cache = BlockCache::new(SymDisk::new(0, blocks));
    let di = DirectoryInfo { raw_directory: crate::filesystem::RawDirectory(crate::filesystem::Handle(7)), raw_volume: crate::RawVolume(crate::filesystem::Handle(1)), cluster: ClusterId(start) };
    let r = vol.find_directory_entry(&mut cache, &di, &ShortFileName { contents: *b"FOUND      " });
    let (want, nwant) = spec_dir_blocks16(&fat0, start, bpc as u32, vol.first_data_block.0, vol.lba_start.0);
    // first scripted answer other than NotFound among the directory's blocks
    let mut stop = nwant;
    let mut i = 8;
    while i > 0 {
        i -= 1;
        if i < nwant && script[i] != 0 {
            stop = i;
        }
    }
    let visited = unsafe { WALK_N };
    let log = unsafe { WALK_LOG };
    let expect_visits = if stop < nwant { stop + 1 } else { nwant };
    assert!(visited == expect_visits, "dir.walk: number of directory blocks examined != blocks up to the first hit / all blocks of the chain");
    i = 0;
    while i < 8 {
        if i < visited {
            assert!(log[i] == want[i], "dir.walk: lookup examined a block that is not the next block of the directory's chain");
        }
        i += 1;
    }
    if stop < nwant {
        if script[stop] == 1 {
            assert!(matches!(&r, Ok(e) if e.entry_block.0 == want[stop]), "dir.walk: the entry found in a later block of the chain was not returned");
        } else {
            assert!(matches!(r, Err(Error::BadBlockSize(0xDEAD))), "fault.reported: an error from a directory block was not returned by the lookup");
        }
    } else {
        assert!(matches!(r, Err(Error::NotFound)), "dir.walk: NotFound expected after the whole chain was searched");
    }
    kani::cover!(len == 3 && bpc == 2 && stop == 5 && script[5] == 1);
    kani::cover!(len == 2 && stop == nwant);
    kani::cover!(stop == 1 && script[1] == 2);
}
#[kani::proof]
#[kani::unwind(12)]
#[kani::stub(crate::fat::volume::FatVolume::next_cluster, stub_next_cluster)]
#[kani::stub(crate::fat::volume::FatVolume::find_entry_in_block, stub_find_entry_in_block)]
fn c06_walk_find_fat16_any_chain() {
    walk_find(false);
}
#[kani::proof]
#[kani::unwind(12)]
#[kani::stub(crate::fat::volume::FatVolume::next_cluster, stub_next_cluster)]
#[kani::stub(crate::fat::volume::FatVolume::find_entry_in_block, stub_find_entry_in_block)]
fn c06_walk_find_fat32_any_chain() {
    walk_find(true);
}

// ======================================= long-name runs in a listing (C17) ===
/// iterate_dir_lfn over a FAT16 root whose first 5 slots are fully symbolic
/// (slot 5 ends the directory); LfnBuffer operations are stubbed.  For the k-th
/// reported entry: a long name is reported iff the entry is directly preceded
/// (deleted slots do not count) by a complete, descending fragment run - first
/// fragment flagged 0x40 with sequence n in 1..=19, then n-1, ..., 1 - whose
/// checksum equals the short name's checksum.
fn lfn_csum(name: &[u8]) -> u8 {
    let mut r = 0u8;
    let mut i = 0;
    while i < 11 {
        r = r.rotate_right(1).wrapping_add(name[i]);
        i += 1;
    }
    r
}
#[kani::proof]
#[kani::unwind(162)]
#[kani::stub(crate::filesystem::LfnBuffer::push, crate::filesystem::vk_fs::stub_lfn_push)]
#[kani::stub(crate::filesystem::LfnBuffer::clear, crate::filesystem::vk_fs::stub_lfn_clear)]
#[kani::stub(crate::filesystem::LfnBuffer::as_str, crate::filesystem::vk_fs::stub_lfn_as_str)]
fn c17_dir_lfn_runs() {
    const NS: usize = 5;
    let mut blocks: [Block; G16A_N] = zero_blocks();
    {
        let raw: [u8; 32 * NS] = kani::any();
        let r = &mut blocks[G16A_ROOT as usize].contents;
        let mut i = 0;
        while i < 32 * NS {
            r[i] = raw[i];
            i += 1;
        }
    }
    let root = blocks[G16A_ROOT as usize].clone();
    let vol = g16a();
    let mut cache = BlockCache::new(SymDisk::new(0, blocks));
    let mut storage = [0u8; 16];
    let mut lfn = LfnBuffer::new(&mut storage);
    let k: usize = kani::any();
    kani::assume(k < NS);
    let mut n = 0usize;
    let mut kth: Option<(u32, bool)> = None;
    let r = vol.iterate_dir_lfn(&mut cache, &mut lfn, &root16_dirinfo(), |de, name| {
        if n == k {
            kth = Some((de.entry_offset, name.is_some()));
        }
        n += 1;
    });
    assert!(r.is_ok(), "lfn.list: listing failed / crashed on arbitrary directory bytes");
    // ---- specification-side run tracker over the same slots ----
    // state: expecting == 0xFF -> no run; otherwise next sequence number expected (0 = complete)
    let mut expecting: u8 = 0xFF;
    let mut run_csum: u8 = 0;
    let mut shorts = 0usize;
    let mut want: Option<(u32, bool)> = None;
    let mut ended = false;
    let mut s = 0;
    while s < NS {
        let o = 32 * s;
        let c = &root.contents;
        if !ended {
            if c[o] == 0x00 {
                ended = true;
            } else if c[o] != 0xE5 {
                if c[o + 11] & 0x0F == 0x0F {
                    let start = c[o] & 0x40 != 0;
                    let seq = c[o] & 0x1F;
                    if start && seq >= 1 && seq < 0x14 {
                        expecting = seq - 1;
                        run_csum = c[o + 13];
                    } else if !start && expecting != 0xFF && expecting >= 1 && seq == expecting {
                        expecting = seq - 1;
                    } else {
                        expecting = 0xFF;
                    }
                } else {
                    let named = expecting == 0 && run_csum == lfn_csum(&c[o..o + 11]);
                    if shorts == k {
                        want = Some((o as u32, named));
                    }
                    shorts += 1;
                    expecting = 0xFF; // a run belongs to the short entry that directly follows it
                }
            }
        }
        s += 1;
    }
    assert!(n == shorts, "lfn.list: number of entries reported != short entries before the end marker");
    match (kth, want) {
        (Some((off, some)), Some((woff, wsome))) => {
            assert!(off == woff, "lfn.list: order of reported entries");
            if some && !wsome {
                assert!(false, "lfn.run: long name reported without a complete, ordered, checksum-matching run directly before the entry");
            }
            if !some && wsome {
                assert!(false, "lfn.run: complete matching run but no long name reported");
            }
        }
        (None, None) => {}
        _ => assert!(false, "lfn.list: count mismatch"),
    }
    kani::cover!(matches!(want, Some((_, true))) && k == 0);
    kani::cover!(matches!(want, Some((128, true))), "3-fragment run + short entry in slot 4... or 2+...");
    kani::cover!(shorts == 2 && matches!(want, Some((_, false))) && k == 1);
}

/// Abstract allocator over the ghost FAT (used together with stub_next_cluster by
/// the extending-write harnesses): lowest free cluster of 2..=5, marked
/// end-of-chain, previous tail linked; NotEnoughSpace iff none is free.
pub(crate) fn stub_alloc_ghost<D>(_this: &mut FatVolume, _bc: &mut BlockCache<D>, prev: Option<ClusterId>, _zero: bool) -> Result<ClusterId, Error<D::Error>>
where
    D: BlockDevice,
{
    unsafe {
        let i = GALLOC_N;
        assert!(i < 4, "abstract allocator: more allocations than modelled");
        GALLOC_N += 1;
        GALLOC_PREV[i] = match prev {
            Some(p) => p.0,
            None => 0,
        };
        let mut c = 0u32;
        let mut k = 6u32;
        while k > 2 {
            k -= 1;
            if GFAT[k as usize] == 0 {
                c = k;
            }
        }
        if c == 0 {
            return Err(Error::NotEnoughSpace);
        }
        GFAT[c as usize] = G_EOC;
        if let Some(p) = prev {
            assert!(p.0 >= 2 && p.0 < 6, "abstract allocator: previous cluster outside the volume");
            GFAT[p.0 as usize] = c;
        }
        Ok(ClusterId(c))
    }
}
pub(crate) fn ghost_fat_set(f: [u32; 8]) {
    unsafe {
        GFAT = f;
        GALLOC_N = 0;
    }
}
pub(crate) fn ghost_fat_get() -> [u32; 8] {
    unsafe { GFAT }
}
pub(crate) fn ghost_alloc_prev(i: usize) -> u32 {
    unsafe { GALLOC_PREV[i] }
}
pub(crate) fn ghost_alloc_calls() -> usize {
    unsafe { GALLOC_N }
}

// ---- scripted directory-level stubs for VolumeManager harnesses (vk_fsop) ----
pub(crate) static mut SCRIPT_FIND_CLUSTER: u32 = 0;
pub(crate) static mut SCRIPT_DELETES: u32 = 0;
pub(crate) fn stub_find_directory_entry<D>(_this: &FatVolume, _bc: &mut BlockCache<D>, _dir: &DirectoryInfo, name: &ShortFileName) -> Result<DirEntry, Error<D::Error>>
where
    D: BlockDevice,
{
    let c = unsafe { SCRIPT_FIND_CLUSTER };
    let mut e = DirEntry::new(name.clone(), Attributes::create_from_fat(0x20), ClusterId(c), fixed_timestamp(), BlockIdx(G16A_ROOT), 0);
    e.size = 700;
    Ok(e)
}
pub(crate) fn stub_delete_directory_entry<D>(_this: &FatVolume, _bc: &mut BlockCache<D>, _dir: &DirectoryInfo, _name: &ShortFileName) -> Result<(), Error<D::Error>>
where
    D: BlockDevice,
{
    unsafe {
        SCRIPT_DELETES += 1;
    }
    Ok(())
}
pub(crate) fn script_set(find_cluster: u32) {
    unsafe {
        SCRIPT_FIND_CLUSTER = find_cluster;
        SCRIPT_DELETES = 0;
        GLOG_N = 0;
    }
}
pub(crate) fn script_deletes() -> u32 {
    unsafe { SCRIPT_DELETES }
}


/// free_cluster_chain (used by delete) over the ghost FAT: every cluster of any
/// well-formed chain becomes free, nothing else changes, the free count grows
/// by the chain length; a start cluster outside the volume (zero-length file,
/// corrupt entry) frees nothing and touches nothing.
#[kani::proof]
#[kani::unwind(12)]
#[kani::stub(crate::fat::volume::FatVolume::next_cluster, stub_next_cluster)]
#[kani::stub(crate::fat::volume::FatVolume::update_fat, stub_update_fat)]
fn c05_free_chain_abstract_fat() {
    let mut fat0 = [0u32; 8];
    fat0[0] = 0x0FFF_FFF8;
    fat0[1] = G_EOC;
    let mut c = 2;
    while c < 6 {
        let e: u32 = kani::any();
        kani::assume(e == 0 || e >= 0x0FFF_FFF8 && e <= G_EOC || (e >= 2 && e < 6));
        fat0[c] = e;
        c += 1;
    }
    let first: u32 = kani::any();
    let in_range = first >= 2 && first < 6;
    let len = if in_range { ghost_chain_len(&fat0, first) } else { 0 };
    kani::assume(!in_range || len >= 1);
    unsafe {
        GFAT = fat0;
        GLOG_N = 0;
    }
    let mut vol = g32a();
    let count0: Option<u32> = if kani::any() { Some(kani::any()) } else { None };
    vol.free_clusters_count = count0;
    let hint0: Option<u32> = if kani::any() { Some(kani::any()) } else { None };
    vol.next_free_cluster = hint0.map(ClusterId);
    let blocks: [Block; G32A_N] = zero_blocks();
    let mut cache = BlockCache::new(SymDisk::new(0, blocks));
    let r = vol.free_cluster_chain(&mut cache, ClusterId(first));
    assert!(r.is_ok(), "free_chain: failed on a well-formed chain / an unallocated file");
    let fat1 = unsafe { GFAT };
    let mut member = [false; 8];
    let mut cur = first;
    let mut i = 0;
    while i < 4 {
        if i < len {
            member[cur as usize] = true;
            assert!(fat1[cur as usize] == 0, "space.reclaim: a cluster of the freed chain is still marked in use");
            let e = fat0[cur as usize];
            if e >= 2 && e < 6 {
                cur = e;
            }
        }
        i += 1;
    }
    c = 0;
    while c < 8 {
        if !member[c] {
            assert!(fat1[c] == fat0[c], "fat.frame: freeing a chain changed a FAT entry outside the chain");
        }
        c += 1;
    }
    match (count0, vol.free_clusters_count) {
        (Some(a), Some(b)) => assert!(b == a.saturating_add(len as u32), "info.count: free-cluster count did not grow by the number of clusters freed"),
        (None, None) => {}
        _ => assert!(false, "info.count: unknown count must stay unknown"),
    }
    if len > 0 {
        // the hint is either what it was or a cluster of the volume (one just freed)
        let h1 = vol.next_free_cluster.map(|c| c.0);
        assert!(h1 == hint0 || matches!(h1, Some(h) if h >= 2 && h < 6), "info.hint: next-free hint outside the volume after freeing a chain");
    } else {
        assert!(unsafe { GLOG_N } == 0, "free_chain: FAT written for a file without clusters");
    }
    kani::cover!(len == 4);
    kani::cover!(len == 0 && first == 0);
    kani::cover!(len == 1 && count0 == Some(u32::MAX));
}


// ------------------------------------------------------ make_dir (functional) ---
/// make_dir in a FAT16 root (slot 0 = an existing file, rest free): the parent
/// gets a directory entry whose cluster is a previously free, now end-of-chain
/// cluster; that cluster holds "." (pointing at itself) and ".." (0 = root) and
/// is otherwise zero; every other block of the volume - in particular the
/// cluster that physically follows the new one - is unchanged.
#[kani::proof]
#[kani::unwind(514)]
fn c03_make_dir_root16() {
    let mut blocks: [Block; G16A_N] = zero_blocks();
    blocks[G16A_FAT as usize] = fat16_concrete([0xFFFF, 0, 0xFFFF, 0xFFFF]); // only cluster 3 is free
    {
        let r = &mut blocks[G16A_ROOT as usize].contents;
        let name = *b"KEEP    DAT";
        let mut i = 0;
        while i < 11 {
            r[i] = name[i];
            i += 1;
        }
        r[11] = 0x20;
        put16(r, 26, 2);
    }
    blocks[(G16A_DATA + 1) as usize] = any_block(); // cluster 3: free, stale contents
    blocks[(G16A_DATA + 2) as usize] = any_block(); // cluster 4: another file's data, directly after the new directory
    let d4 = blocks[(G16A_DATA + 2) as usize].clone();
    let root0 = blocks[G16A_ROOT as usize].clone();
    let mut vol = g16a();
    let mut cache = BlockCache::new(SymDisk::new(0, blocks));
    let name = ShortFileName { contents: *b"SUB        " };
    let r = vol.make_dir(&mut cache, &Clock(fixed_timestamp()), ClusterId::ROOT_DIR, name, Attributes::create_from_fat(Attributes::DIRECTORY));
    assert!(r.is_ok(), "mkdir: failed although a slot and a cluster are free");
    let dev = vk_bd::dev(&cache);
    let root = dev.block(G16A_ROOT);
    let fat = dev.block(G16A_FAT);
    let c = le16(&root.contents, 32 + 26) as u32;
    assert!(c == 3, "mkdir: directory cluster is not the (only) previously free cluster");
    assert!(f16(&fat, 3) >= 0xFFF8, "mkdir: directory cluster not marked end-of-chain");
    assert!(f16(&fat, 2) == 0xFFFF && f16(&fat, 4) == 0xFFFF && f16(&fat, 5) == 0xFFFF, "fat.frame: mkdir changed another file's FAT entries");
    assert!(root.contents[32] == b'S' && root.contents[32 + 11] & 0x10 != 0 && le32(&root.contents, 32 + 28) == 0, "mkdir: parent entry (name, directory attribute, size 0)");
    let mut p = 0;
    while p < 32 {
        assert!(root.contents[p] == root0.contents[p], "dir.frame: mkdir changed another directory entry");
        p += 1;
    }
    let d = dev.block(G16A_DATA + 1);
    assert!(d.contents[0] == b'.' && d.contents[1] == b' ' && d.contents[11] & 0x10 != 0 && le16(&d.contents, 26) == 3, "mkdir: '.' entry must designate the directory itself");
    assert!(d.contents[32] == b'.' && d.contents[33] == b'.' && d.contents[34] == b' ' && d.contents[32 + 11] & 0x10 != 0 && le16(&d.contents, 32 + 26) == 0, "mkdir: '..' entry of a directory in the root must hold cluster 0");
    p = 64;
    while p < 512 {
        assert!(d.contents[p] == 0, "mkdir: rest of the new directory cluster not zero (stale entries exposed)");
        p += 1;
    }
    let n4 = dev.block(G16A_DATA + 2);
    p = 0;
    while p < 512 {
        assert!(n4.contents[p] == d4.contents[p], "write.region: mkdir changed the data cluster that physically follows the new directory");
        p += 1;
    }
    assert!(!dev.wrote(G16A_DATA) && !dev.wrote(G16A_DATA + 2) && !dev.wrote(G16A_DATA + 3) && !dev.wrote(8) && !dev.wrote(1), "write.region: mkdir wrote a block outside the parent directory, the FAT and the new cluster");
    kani::cover!(c == 3);
}
