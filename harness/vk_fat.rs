//! FatVolume-level harnesses (crate::fat::volume::vk_fat): FAT entry codec,
//! allocator, truncation, directory read/write, mkdir, info sector.
//! Serves C03 C04 C05 C06 C10 C16 (and the FAT-level parts of C02 C09 C11).
#![allow(dead_code, unused_imports)]
use super::*;
use crate::blockdevice::vk_bd;
use crate::fat::{Fat16Info, Fat32Info};
use crate::vk_common::*;

type Cache<const N: usize> = BlockCache<SymDisk<N>>;

fn zero_blocks<const N: usize>() -> [Block; N] {
    core::array::from_fn(|_| Block::new())
}

// ------------------------------------------------------------- FAT images ---

/// FAT16 sector: entries 0/1 as a formatter writes them, entries
/// 2..2+nsym symbolic (clusters + slack), the rest `fill`.
fn sym_fat16(nsym: usize, fill: u16) -> Block {
    let mut b = Block::new();
    put16(&mut b.contents, 0, 0xFFF8);
    put16(&mut b.contents, 2, 0xFFFF);
    let mut c = 2;
    while c < 256 {
        if c < 2 + nsym {
            put16(&mut b.contents, 2 * c, kani::any());
        } else if fill != 0 {
            put16(&mut b.contents, 2 * c, fill);
        }
        c += 1;
    }
    b
}

fn sym_fat32(nsym: usize, fill: u32) -> Block {
    let mut b = Block::new();
    put32(&mut b.contents, 0, 0x0FFF_FFF8);
    put32(&mut b.contents, 4, 0x0FFF_FFFF);
    let mut c = 2;
    while c < 128 {
        if c < 2 + nsym {
            put32(&mut b.contents, 4 * c, kani::any());
        } else if fill != 0 {
            put32(&mut b.contents, 4 * c, fill);
        }
        c += 1;
    }
    b
}

fn f16(b: &Block, c: u32) -> u16 {
    le16(&b.contents, 2 * c as usize)
}
fn f32(b: &Block, c: u32) -> u32 {
    le32(&b.contents, 4 * c as usize)
}

// ----------------------------------------------------- FAT entry decoding ---

/// next_cluster on FAT16: classification of every 16-bit entry value per the
/// FAT specification (0xFFF7 bad, 0xFFF8..=0xFFFF end of chain, anything else
/// is the next cluster number); reads only, writes nothing.
#[kani::proof]
#[kani::unwind(12)]
fn c05_next_cluster_fat16() {
    let e: u16 = kani::any();
    let mut blocks: [Block; G16A_N] = zero_blocks();
    put16(&mut blocks[G16A_FAT as usize].contents, 2 * 3, e);
    let vol = g16a();
    let mut cache = BlockCache::new(SymDisk::new(0, blocks));
    let r = vol.next_cluster(&mut cache, ClusterId(3));
    match r {
        Ok(n) => assert!(e < 0xFFF7 && n.0 == e as u32, "fat16.next: value is not the next cluster number"),
        Err(Error::BadCluster) => assert!(e == 0xFFF7, "fat16.next: BadCluster for a value other than 0xFFF7"),
        Err(Error::EndOfFile) => assert!(e >= 0xFFF8, "fat16.next: end-of-chain for a value below 0xFFF8"),
        Err(_) => assert!(false, "fat16.next: unexpected error"),
    }
    assert!(vk_bd::dev(&cache).nwrites.get() == 0, "fat16.next: wrote to the device");
    kani::cover!(e == 0xFFF0);
    kani::cover!(e == 0xFFF8);
    kani::cover!(e == 0xFFF7);
}

#[kani::proof]
#[kani::unwind(12)]
fn c05_next_cluster_fat32() {
    let e: u32 = kani::any();
    let mut blocks: [Block; G32A_N] = zero_blocks();
    put32(&mut blocks[G32A_FAT1 as usize].contents, 4 * 3, e);
    let vol = g32a();
    let mut cache = BlockCache::new(SymDisk::new(0, blocks));
    let r = vol.next_cluster(&mut cache, ClusterId(3));
    let v = e & 0x0FFF_FFFF;
    match r {
        Ok(n) => assert!(v >= 2 && v < 0x0FFF_FFF7 && n.0 == v, "fat32.next: value is not the next cluster number (low 28 bits)"),
        Err(Error::BadCluster) => assert!(v == 0x0FFF_FFF7, "fat32.next: BadCluster for a value other than 0x0FFFFFF7"),
        Err(Error::EndOfFile) => assert!(v >= 0x0FFF_FFF8 || v == 1, "fat32.next: end-of-chain for a value below 0x0FFFFFF8"),
        Err(Error::UnterminatedFatChain) => assert!(v == 0, "fat32.next: free-entry error for a non-zero entry"),
        Err(_) => assert!(false, "fat32.next: unexpected error"),
    }
    assert!(vk_bd::dev(&cache).nwrites.get() == 0, "fat32.next: wrote to the device");
    kani::cover!(e == 0xF000_0005);
    kani::cover!(v == 0x0FFF_FFF0);
    kani::cover!(v == 0);
}

// ------------------------------------------------------------- update_fat ---

fn enc16(v: u32) -> u16 {
    match v {
        0xFFFF_FFF6 => 0xFFF6,
        0xFFFF_FFF7 => 0xFFF7,
        0 => 0,
        0xFFFF_FFFF => 0xFFFF,
        x => x as u16,
    }
}

/// update_fat on FAT16 (1 FAT): exactly the addressed entry changes, every
/// other byte of the FAT sector is preserved, only the FAT sector is written.
#[kani::proof]
#[kani::unwind(12)]
fn c04_update_fat16_frame() {
    let mut blocks: [Block; G16A_N] = zero_blocks();
    blocks[G16A_FAT as usize] = any_block();
    let pre = blocks[G16A_FAT as usize].clone();
    let mut vol = g16a();
    let mut cache = BlockCache::new(SymDisk::new(0, blocks));
    let c: u32 = kani::any();
    kani::assume(c >= 2 && c < 8);
    let v: u32 = kani::any();
    let r = vol.update_fat(&mut cache, ClusterId(c), ClusterId(v));
    assert!(r.is_ok(), "fat16.update: failed without a device error");
    let dev = vk_bd::dev(&cache);
    let post = dev.block(G16A_FAT);
    assert!(f16(&post, c) == enc16(v), "fat16.update: entry does not hold the new value");
    let p: usize = kani::any();
    kani::assume(p < 512 && p / 2 != c as usize);
    assert!(post.contents[p] == pre.contents[p], "fat.frame: update_fat changed a byte outside the addressed entry");
    assert!(dev.nwrites.get() == 1 && dev.wrote(G16A_FAT), "fat.region: update_fat wrote something other than the FAT sector");
    kani::cover!(c == 7 && v == 0xFFFF_FFFF);
    kani::cover!(v == 0);
}

/// update_fat on FAT32 (2 FATs): low 28 bits replaced, high nibble preserved,
/// other bytes preserved, both FAT copies written and identical.
#[kani::proof]
#[kani::unwind(12)]
fn c16_update_fat32_both_copies() {
    let mut blocks: [Block; G32A_N] = zero_blocks();
    blocks[G32A_FAT1 as usize] = any_block();
    blocks[G32A_FAT2 as usize] = blocks[G32A_FAT1 as usize].clone();
    let pre = blocks[G32A_FAT1 as usize].clone();
    let mut vol = g32a();
    let mut cache = BlockCache::new(SymDisk::new(0, blocks));
    let c: u32 = kani::any();
    kani::assume(c >= 2 && c < 8);
    let v: u32 = kani::any();
    let r = vol.update_fat(&mut cache, ClusterId(c), ClusterId(v));
    assert!(r.is_ok(), "fat32.update: failed without a device error");
    let dev = vk_bd::dev(&cache);
    let post = dev.block(G32A_FAT1);
    let post2 = dev.block(G32A_FAT2);
    let want = match v {
        0xFFFF_FFF6 => 0x0FFF_FFF6,
        0xFFFF_FFF7 => 0x0FFF_FFF7,
        x => x & 0x0FFF_FFFF,
    };
    assert!(f32(&post, c) & 0x0FFF_FFFF == want, "fat32.update: entry does not hold the new value");
    assert!(f32(&post, c) & 0xF000_0000 == f32(&pre, c) & 0xF000_0000, "fat32.update: reserved high nibble not preserved");
    let p: usize = kani::any();
    kani::assume(p < 512);
    if p / 4 != c as usize {
        assert!(post.contents[p] == pre.contents[p], "fat.frame: update_fat changed a byte outside the addressed entry");
    }
    assert!(post2.contents[p] == post.contents[p], "fat.copies: second FAT differs from the first after update");
    assert!(dev.nwrites.get() == 2 && dev.wrote(G32A_FAT1) && dev.wrote(G32A_FAT2), "fat.region: update_fat must write exactly the two FAT sectors");
    kani::cover!(c == 5 && v == 0xFFFF_FFFF && f32(&pre, c) >> 28 == 0xA);
}

// ------------------------------------------------- find_next_free_cluster ---

/// find_next_free_cluster(start, end) on FAT16 with symbolic FAT contents
/// (4 clusters + 2 slack entries symbolic, rest `fill`) and a concrete scan
/// start: returns the first free cluster in [start, end) and nothing else.
fn find_free16(start: u32, fill: u16) {
    const COUNT: u32 = 4;
    let mut blocks: [Block; G16A_N] = zero_blocks();
    blocks[G16A_FAT as usize] = sym_fat16(COUNT as usize + 2, fill);
    let fat = blocks[G16A_FAT as usize].clone();
    let vol = g16a();
    let mut cache = BlockCache::new(SymDisk::new(0, blocks));
    let end = COUNT + 2;
    let r = vol.find_next_free_cluster(&mut cache, ClusterId(start), ClusterId(end));
    // spec: lowest c in [start, end) with entry 0
    let mut want = 0u32;
    let mut c = end;
    while c > start {
        c -= 1;
        if f16(&fat, c) == 0 {
            want = c;
        }
    }
    match r {
        Ok(n) => {
            assert!(n.0 >= start && n.0 < end, "alloc.in_range: free-cluster search returned a cluster outside [start, end) (FAT slack)");
            assert!(n.0 == want, "alloc.first_free: not the first free cluster at or after the start");
        }
        Err(Error::NotEnoughSpace) => assert!(want == 0, "alloc.full_use: search failed although a free cluster exists in range"),
        Err(_) => assert!(false, "alloc.search: unexpected error"),
    }
    assert!(vk_bd::dev(&cache).nwrites.get() == 0, "alloc.search: wrote to the device");
    kani::cover!(matches!(r, Ok(n) if n.0 == end - 1));
    kani::cover!(r.is_err() && f16(&fat, end) == 0, "volume full, slack entry zero");
    kani::cover!(r.is_err() && f16(&fat, end) != 0);
}
#[kani::proof]
#[kani::unwind(258)]
fn c05_find_free16_from2() {
    find_free16(2, 0);
}
#[kani::proof]
#[kani::unwind(258)]
fn c05_find_free16_from4() {
    find_free16(4, 0);
}
#[kani::proof]
#[kani::unwind(258)]
fn c05_find_free16_from5_dirty() {
    find_free16(5, 0xFFF7);
}

fn find_free32(start: u32) {
    const COUNT: u32 = 4;
    let mut blocks: [Block; G32A_N] = zero_blocks();
    blocks[G32A_FAT1 as usize] = sym_fat32(COUNT as usize + 2, 0);
    let fat = blocks[G32A_FAT1 as usize].clone();
    let vol = g32a();
    let mut cache = BlockCache::new(SymDisk::new(0, blocks));
    let end = COUNT + 2;
    let r = vol.find_next_free_cluster(&mut cache, ClusterId(start), ClusterId(end));
    let mut want = 0u32;
    let mut c = end;
    while c > start {
        c -= 1;
        if f32(&fat, c) & 0x0FFF_FFFF == 0 {
            want = c;
        }
    }
    match r {
        Ok(n) => {
            assert!(n.0 >= start && n.0 < end, "alloc.in_range: free-cluster search returned a cluster outside [start, end) (FAT slack)");
            assert!(n.0 == want, "alloc.first_free: not the first free cluster at or after the start");
        }
        Err(Error::NotEnoughSpace) => assert!(want == 0, "alloc.full_use: search failed although a free cluster exists in range"),
        Err(_) => assert!(false, "alloc.search: unexpected error"),
    }
    kani::cover!(matches!(r, Ok(n) if n.0 == end - 1));
    kani::cover!(r.is_err() && f32(&fat, end) & 0x0FFF_FFFF == 0);
}
#[kani::proof]
#[kani::unwind(130)]
fn c05_find_free32_from2() {
    find_free32(2);
}
#[kani::proof]
#[kani::unwind(130)]
fn c05_find_free32_from3() {
    find_free32(3);
}

// ---------------------------------------------------------- alloc_cluster ---

/// alloc_cluster on FAT16 for one concrete free map (bit i of `free` = cluster
/// 2+i free; bits 4,5 = the two slack entries are zero), used clusters hold an
/// end-of-chain mark; prev (if any) symbolic among the used clusters; hint and
/// free-count record symbolic in a small set.  Everything the allocator
/// computes from the FAT is then concrete and the call is decided in seconds;
/// the harness branches over all 64 maps.
fn alloc16_map(free: u8, prev_c: u32, zero: bool, hint: Option<u32>) {
    const COUNT: u32 = 4;
    let mut blocks: [Block; G16A_N] = zero_blocks();
    {
        let f = &mut blocks[G16A_FAT as usize].contents;
        put16(f, 0, 0xFFF8);
        put16(f, 2, 0xFFFF);
        let mut i = 0;
        while i < 6 {
            put16(f, 2 * (2 + i), if free & (1 << i) != 0 { 0 } else { 0xFFFF });
            i += 1;
        }
    }
    blocks[(G16A_DATA + 1) as usize] = any_block(); // stale contents in a data cluster
    let pre = blocks[G16A_FAT as usize].clone();
    let mut vol = g16a();
    // concrete per instance: a symbolic scan start makes every FAT access symbolic
    vol.next_free_cluster = hint.map(ClusterId);
    let nfree = (free & 0xF).count_ones();
    // prev: concrete per instance (0 = none); a symbolic prev makes the FAT update a
    // symbolic-offset write and every later scan of that sector symbolic
    let prev = if prev_c >= 2 { Some(ClusterId(prev_c)) } else { None };
    let mut cache = BlockCache::new(SymDisk::new(0, blocks));
    let r = vol.alloc_cluster(&mut cache, prev, zero);
    let dev = vk_bd::dev(&cache);
    let post = dev.block(G16A_FAT);
    match r {
        Ok(n) => {
            assert!(n.0 >= 2 && n.0 < COUNT + 2, "alloc.in_range: allocated a cluster outside the volume (FAT slack)");
            assert!(f16(&pre, n.0) == 0, "alloc.was_free: allocated a cluster that was not free");
            assert!(f16(&post, n.0) >= 0xFFF8, "alloc.eoc: new cluster not marked end-of-chain");
            if let Some(p) = prev {
                assert!(f16(&post, p.0) as u32 == n.0, "alloc.link: previous cluster not linked to the new one");
            }
            let q: u32 = kani::any();
            kani::assume(q < 256 && q != n.0 && Some(ClusterId(q)) != prev);
            assert!(f16(&post, q) == f16(&pre, q), "fat.frame: alloc changed an unrelated FAT entry");
            if let Some(h) = vol.next_free_cluster {
                assert!(h.0 >= 2 && h.0 < COUNT + 2, "alloc.hint: next-free hint outside the volume");
            }
            if zero {
                let z: usize = kani::any();
                kani::assume(z < 512);
                assert!(dev.byte(G16A_DATA + n.0 - 2, z) == 0, "alloc.zero: new directory cluster not zeroed");
            }
        }
        Err(_) => {
            assert!(nfree == 0, "alloc.full_use: allocation failed although a free cluster exists");
            let q: u32 = kani::any();
            kani::assume(q < 256);
            assert!(f16(&post, q) == f16(&pre, q), "alloc.failed_clean: failed allocation left the FAT modified (leaked cluster)");
        }
    }
    // region: only the FAT sector, and (zeroing) the new cluster's block
    let w: usize = kani::any();
    kani::assume(w < LOG_CAP && (w as u32) < dev.nwrites.get());
    let idx = dev.log.borrow()[w];
    let ok_region = idx == G16A_FAT || (zero && r.is_ok() && idx >= G16A_DATA && idx < G16A_DATA + COUNT);
    assert!(ok_region, "write.region: alloc wrote outside the FAT / the new cluster");
    kani::cover!(r.is_ok() == (nfree > 0), "instance reaches its expected outcome");
}

// One harness per concrete (free map, prev, zero, hint) instance: bits 0..3 = clusters
// 2..5 free, bits 4,5 = slack entries zero; prev 0 = none.
#[kani::proof]
#[kani::unwind(14)]
fn c05_alloc16_a_3e_p2() {
    alloc16_map(0x3E, 2, false, None);
}
#[kani::proof]
#[kani::unwind(14)]
fn c05_alloc16_a_38_p3_h4() {
    alloc16_map(0x38, 3, false, Some(4));
}
#[kani::proof]
#[kani::unwind(14)]
fn c05_alloc16_a_30_p2() {
    alloc16_map(0x30, 2, false, None);
}
#[kani::proof]
#[kani::unwind(14)]
fn c05_alloc16_a_3f_none() {
    alloc16_map(0x3F, 0, false, None);
}
#[kani::proof]
#[kani::unwind(14)]
fn c05_alloc16_a_31_p5_h5() {
    alloc16_map(0x31, 5, false, Some(5));
}
#[kani::proof]
#[kani::unwind(14)]
fn c05_alloc16_a_34_p2_h1000() {
    alloc16_map(0x34, 2, false, Some(1000));
}
#[kani::proof]
#[kani::unwind(14)]
fn c05_alloc16_a_32_p2_h6() {
    alloc16_map(0x32, 2, false, Some(6));
}
#[kani::proof]
#[kani::unwind(14)]
fn c05_alloc16_a_00_p2() {
    alloc16_map(0x00, 2, false, None);
}
#[kani::proof]
#[kani::unwind(14)]
fn c05_alloc16_a_08_p2() {
    alloc16_map(0x08, 2, false, None);
}
#[kani::proof]
#[kani::unwind(14)]
fn c05_alloc16_a_18_p2() {
    alloc16_map(0x18, 2, false, None);
}
#[kani::proof]
#[kani::unwind(14)]
fn c05_alloc16_a_3e_p2_zero() {
    alloc16_map(0x3E, 2, true, None);
}
#[kani::proof]
#[kani::unwind(14)]
fn c05_alloc16_a_38_p4_zero() {
    alloc16_map(0x38, 4, true, None);
}
#[kani::proof]
#[kani::unwind(14)]
fn c05_alloc16_a_30_p5_zero() {
    alloc16_map(0x30, 5, true, None);
}

// ---------------------------------------------------- cluster arithmetic ---

/// cluster_to_block for fully symbolic FAT16/FAT32 geometry satisfying what
/// mount establishes: every block of every in-range cluster lies inside the
/// partition's data area.
#[kani::proof]
fn c04_cluster_to_block_in_data_area() {
    let lba: u32 = kani::any();
    let nblocks: u32 = kani::any();
    let bpc: u8 = kani::any();
    let first_data: u32 = kani::any();
    let count: u32 = kani::any();
    let k: u8 = kani::any();
    kani::assume(k <= 7 && bpc == 1u8 << k);
    // mount invariant: data area = first_data .. first_data + count*bpc, inside the partition, no u32 overflow
    kani::assume(count >= 1 && count <= 0x0FFF_FFF5);
    let span = (count as u64) << k;
    kani::assume(first_data as u64 + span <= nblocks as u64);
    kani::assume(lba as u64 + nblocks as u64 <= 0x1_0000_0000);
    let fat32: bool = kani::any();
    let vol = FatVolume {
        lba_start: BlockIdx(lba),
        num_blocks: BlockCount(nblocks),
        name: VolumeName { contents: [b' '; 11] },
        blocks_per_cluster: bpc,
        first_data_block: BlockCount(first_data),
        fat_start: BlockCount(1),
        second_fat_start: None,
        free_clusters_count: None,
        next_free_cluster: None,
        cluster_count: count,
        fat_specific_info: if fat32 {
            FatSpecificInfo::Fat32(Fat32Info { first_root_dir_cluster: ClusterId(2), info_location: BlockIdx(lba.wrapping_add(1)) })
        } else {
            FatSpecificInfo::Fat16(Fat16Info { first_root_dir_block: BlockCount(2), root_entries_count: 16 })
        },
    };
    let c: u32 = kani::any();
    kani::assume(c >= 2 && c - 2 < count);
    let b = vol.cluster_to_block(ClusterId(c));
    let lo = lba as u64 + first_data as u64 + (((c - 2) as u64) << k);
    assert!(b.0 as u64 == lo, "geom.cluster_to_block: first block of cluster != lba + first_data + (c-2)*bpc");
    assert!(lo + (bpc as u64) <= lba as u64 + nblocks as u64, "geom.in_partition: cluster extends past the partition");
    assert!(vol.bytes_per_cluster() == (bpc as u32) * 512, "geom.bytes_per_cluster");
    kani::cover!(bpc == 128 && c > 1000);
    kani::cover!(fat32 && bpc == 1);
}

