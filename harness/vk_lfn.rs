//! C17: long-file-name buffer (crate::filesystem::filename::vk_lfn).
#![allow(dead_code)]
use super::*;

const N: usize = 24; // storage for the whole-name harnesses

fn is_sur(x: u16) -> bool {
    (0xD800..=0xDFFF).contains(&x)
}
fn is_hi(x: u16) -> bool {
    (0xD800..=0xDBFF).contains(&x)
}
fn is_lo(x: u16) -> bool {
    (0xDC00..=0xDFFF).contains(&x)
}

/// Reference: lossy UTF-16 decode of `frag[..first NUL] ++ carried`, with the
/// one documented exception that an unpaired surrogate in *first* position is
/// not emitted but carried to the next push (it may pair with the last unit of
/// the fragment that precedes this one in name order).  Returns the UTF-8
/// bytes, their length, and the new carry.
fn ref_push(frag: &[u16; 13], carried: Option<u16>) -> ([u8; 56], usize, Option<u16>) {
    let mut u = [0u16; 14];
    let mut m = 0;
    let mut stop = false;
    let mut i = 0;
    while i < 13 {
        if !stop {
            if frag[i] == 0 {
                stop = true;
            } else {
                u[m] = frag[i];
                m += 1;
            }
        }
        i += 1;
    }
    if let Some(c) = carried {
        u[m] = c;
        m += 1;
    }
    let mut out = [0u8; 56];
    let mut len = 0;
    let mut carry = None;
    let mut skip = false;
    i = 0;
    while i < 14 {
        if i < m && !skip {
            let x = u[i];
            let mut cp: u32 = x as u32;
            let mut emit = true;
            if is_hi(x) && i + 1 < m && is_lo(u[i + 1]) {
                cp = 0x10000 + (((x as u32) - 0xD800) << 10) + ((u[i + 1] as u32) - 0xDC00);
                skip = true;
            } else if is_sur(x) {
                if i == 0 {
                    carry = Some(x);
                    emit = false;
                } else {
                    cp = 0xFFFD;
                }
            }
            if emit {
                if cp < 0x80 {
                    out[len] = cp as u8;
                    len += 1;
                } else if cp < 0x800 {
                    out[len] = 0xC0 | (cp >> 6) as u8;
                    out[len + 1] = 0x80 | (cp & 0x3F) as u8;
                    len += 2;
                } else if cp < 0x10000 {
                    out[len] = 0xE0 | (cp >> 12) as u8;
                    out[len + 1] = 0x80 | ((cp >> 6) & 0x3F) as u8;
                    out[len + 2] = 0x80 | (cp & 0x3F) as u8;
                    len += 3;
                } else {
                    out[len] = 0xF0 | (cp >> 18) as u8;
                    out[len + 1] = 0x80 | ((cp >> 12) & 0x3F) as u8;
                    out[len + 2] = 0x80 | ((cp >> 6) & 0x3F) as u8;
                    out[len + 3] = 0x80 | (cp & 0x3F) as u8;
                    len += 4;
                }
            }
        } else if skip {
            skip = false;
        }
        i += 1;
    }
    (out, len, carry)
}

/// One push from an arbitrary buffer state (buffer length 0..=NB symbolic, any
/// free position, any carried unit a previous push could have left, any
/// overflow flag, arbitrary stored bytes) with a fragment whose units are
/// symbolic where `mask` says so and `fixed` elsewhere.  `content` selects the
/// byte-for-byte comparison with the reference encoding.
fn one_push<const NB: usize>(mask: u16, fixed: u16, content: bool) {
    let mut storage: [u8; NB] = kani::any();
    let before = storage;
    let len: usize = kani::any();
    let free: usize = kani::any();
    kani::assume(len <= NB && free <= len);
    let overflow: bool = kani::any();
    let carried: Option<u16> = if kani::any() {
        let c: u16 = kani::any();
        kani::assume(is_sur(c)); // push only ever saves surrogates
        Some(c)
    } else {
        None
    };
    let mut frag = [fixed; 13];
    let mut i = 0;
    while i < 13 {
        if mask & (1 << i) != 0 {
            frag[i] = kani::any();
        }
        i += 1;
    }
    let (exp, elen, ecarry) = ref_push(&frag, carried);
    let (new_free, new_overflow, new_carry) = {
        let mut b = LfnBuffer { inner: &mut storage[..len], free, overflow, unpaired_surrogate: carried };
        b.push(&frag);
        (b.free, b.overflow, b.unpaired_surrogate)
    };
    assert!(new_free <= free, "lfn.push: free position moved backwards");
    assert!(new_overflow == (overflow || elen > free), "lfn.push: overflow flag != (already set || encoding does not fit)");
    assert!(new_carry == ecarry, "lfn.push: carried surrogate != fragment's leading unpaired unit");
    // bytes of earlier pushes are untouched
    let p: usize = kani::any();
    if p >= free && p < NB {
        assert!(storage[p] == before[p], "lfn.push: bytes of previously pushed fragments changed");
    }
    if elen <= free {
        assert!(new_free == free - elen, "lfn.push: consumed space != length of the UTF-8 encoding");
        if content {
            let q: usize = kani::any();
            if q < elen {
                assert!(storage[new_free + q] == exp[q], "lfn.push: written bytes != UTF-8 of the lossy decoding of fragment ++ carried unit");
            }
        }
    }
    kani::cover!(elen == 0 && ecarry.is_some());
    kani::cover!(elen > free && !overflow);
    kani::cover!(elen <= free && carried.is_some() && ecarry.is_none() && elen >= 4);
}

/// Short fragment (3 symbolic units then NUL) + symbolic carry, 16-byte buffer:
/// every pairing / carry / replacement case, full content comparison.
#[kani::proof]
#[kani::unwind(16)]
fn c17_lfn_push_short() {
    one_push::<16>(0b0_0000_0000_0111, 0, true);
}

/// Full 13-unit fragment, first and last unit symbolic (the carry logic looks at
/// the first unit and at what follows the last one), the rest ASCII; this is
/// the shape that needs 14 decoded characters when a carried surrogate does not pair.
#[kani::proof]
#[kani::unwind(16)]
fn c17_lfn_push_full_capacity() {
    one_push::<32>(0b1_0000_0000_0001, 0x0041, true);
}

/// units 0..=3 and 12 symbolic, 2-byte BMP filler
#[kani::proof]
#[kani::unwind(16)]
fn c17_lfn_push_edges() {
    one_push::<48>(0b1_0000_0000_1111, 0x00E9, true);
}

/// all 13 units symbolic: totality, space accounting, flags (no content compare)
#[kani::proof]
#[kani::unwind(16)]
fn c17_lfn_push_full() {
    one_push::<64>(0x1FFF, 0, false);
}

/// Fresh buffer, one fragment = a whole one-fragment name: as_str is the
/// lossy decoding of the fragment (here the leading unpaired unit is the
/// start of the *name*, so lossy decoding makes it U+FFFD).
#[kani::proof]
#[kani::unwind(16)]
fn c17_lfn_single_fragment_name() {
    let mut storage = [0u8; N];
    let mut frag = [0x0041u16; 13];
    frag[0] = kani::any();
    frag[1] = kani::any();
    frag[2] = kani::any();
    frag[12] = kani::any();
    let (exp, elen, ecarry) = ref_push(&frag, None);
    let mut b = LfnBuffer::new(&mut storage);
    b.push(&frag);
    let s = b.as_str().as_bytes();
    // whole-name lossy decoding: a leading unpaired surrogate becomes U+FFFD (3 bytes)
    let lead = if ecarry.is_some() { 3 } else { 0 };
    assert!(s.len() == elen + lead, "lfn.name: length of the decoded name != lossy decoding (leading unpaired surrogate dropped)");
    if lead == 3 && s.len() >= 3 {
        assert!(s[0] == 0xEF && s[1] == 0xBF && s[2] == 0xBD, "lfn.name: leading unpaired surrogate is not U+FFFD");
    }
    let q: usize = kani::any();
    kani::assume(q < elen && lead + q < s.len());
    assert!(s[lead + q] == exp[q], "lfn.name: content");
    kani::cover!(ecarry.is_some());
    kani::cover!(ecarry.is_none() && elen == 13);
}

/// as_str() of a buffer in any state reachable by pushes whose stored bytes
/// are a concatenation of whole scalar encodings is valid UTF-8: checked
/// directly for two pushes into a small buffer (cross-check of the induction).
#[kani::proof]
#[kani::unwind(16)]
fn c17_lfn_two_pushes_utf8() {
    let mut storage = [0u8; 16];
    let len: usize = kani::any();
    kani::assume(len <= 16);
    let mut f1 = [0u16; 13];
    let mut f2 = [0u16; 13];
    f1[0] = kani::any();
    f1[1] = kani::any();
    f2[0] = kani::any();
    f2[1] = kani::any();
    f2[2] = kani::any();
    let mut b = LfnBuffer::new(&mut storage[..len]);
    b.push(&f1);
    b.push(&f2);
    let s = b.as_str().as_bytes();
    // validate UTF-8 by hand (bounded, <= 16 bytes)
    let mut i = 0;
    let mut ok = true;
    let mut k = 0;
    while k < 16 {
        if i < s.len() {
            let c = s[i];
            let n = if c < 0x80 { 1 } else if c & 0xE0 == 0xC0 { 2 } else if c & 0xF0 == 0xE0 { 3 } else if c & 0xF8 == 0xF0 { 4 } else { 0 };
            if n == 0 || i + n > s.len() {
                ok = false;
                i = s.len();
            } else {
                let mut t = 1;
                while t < 4 {
                    if t < n && s[i + t] & 0xC0 != 0x80 {
                        ok = false;
                    }
                    t += 1;
                }
                i += n;
            }
        }
        k += 1;
    }
    assert!(ok, "lfn.utf8: as_str() is not valid UTF-8");
    kani::cover!(s.len() == 10);
    kani::cover!(s.len() == 0 && len >= 1);
}

// ---------------------------------------------------------------- stubs ---
// For the directory-level harness (vk_fat::c17_dir_lfn_runs) the buffer
// operations are replaced by counters: which fragments get pushed is decided
// there, what a push does is decided by the harnesses above.
pub(crate) static mut LFN_PUSHES: u32 = 0;
pub(crate) static mut LFN_CLEARS: u32 = 0;
pub(crate) fn stub_lfn_push<'a>(_this: &mut LfnBuffer<'a>, _buffer: &[u16; 13])
where
    'a: 'a,
{
    unsafe {
        LFN_PUSHES += 1;
    }
}
pub(crate) fn stub_lfn_clear<'a>(_this: &mut LfnBuffer<'a>)
where
    'a: 'a,
{
    unsafe {
        LFN_CLEARS += 1;
        LFN_PUSHES = 0;
    }
}
pub(crate) fn stub_lfn_as_str<'a, 'b>(_this: &'b LfnBuffer<'a>) -> &'b str
where
    'a: 'a,
{
    "L"
}
