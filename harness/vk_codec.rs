//! C18: directory-entry, timestamp and 8.3-name codecs (crate::vk_codec).
#![allow(dead_code)]
use crate::fat::{FatType, OnDiskDirEntry};
use crate::filesystem::{Attributes, ClusterId, DirEntry, ShortFileName, Timestamp};
use crate::BlockIdx;

// ------------------------------------------------------------ timestamps ---

/// All 2^32 (date, time) field pairs: decoding is total; the decoded fields
/// are the FAT specification's bit fields; for every pair with month >= 1 and
/// day >= 1 (every representable date/time, and more) decode-then-encode is
/// the identity.
#[kani::proof]
fn c18_ts_decode_encode_all_pairs() {
    let date: u16 = kani::any();
    let time: u16 = kani::any();
    let ts = Timestamp::from_fat(date, time);
    let month = (date >> 5) & 0xF;
    let day = date & 0x1F;
    // spec fields
    assert!(ts.year_since_1970 as u16 == 10 + (date >> 9), "ts.decode: year field");
    assert!(ts.hours as u16 == time >> 11, "ts.decode: hours field");
    assert!(ts.minutes as u16 == (time >> 5) & 0x3F, "ts.decode: minutes field");
    assert!(ts.seconds as u16 == (time & 0x1F) * 2, "ts.decode: seconds field (2 s units)");
    if month >= 1 {
        assert!(ts.zero_indexed_month as u16 == month - 1, "ts.decode: month field");
    }
    if day >= 1 {
        assert!(ts.zero_indexed_day as u16 == day - 1, "ts.decode: day field");
    }
    if month >= 1 && day >= 1 {
        let enc = ts.serialize_to_fat();
        let t = time.to_le_bytes();
        let d = date.to_le_bytes();
        assert!(enc[0] == t[0] && enc[1] == t[1], "ts.roundtrip: time bytes changed by decode-then-encode");
        assert!(enc[2] == d[0] && enc[3] == d[1], "ts.roundtrip: date bytes changed by decode-then-encode");
    }
    kani::cover!(date >> 9 == 127 && month == 12 && day == 31 && time >> 11 == 23);
    kani::cover!(date == 0x0021 && time == 0);
    kani::cover!(month == 0);
}

/// Calendar timestamps 1980..=2107: from_calendar accepts them, and
/// encode-then-decode returns them up to the 2 s rounding; out-of-range
/// calendar fields are rejected; the encoded bits are the spec's layout.
#[kani::proof]
fn c18_ts_calendar_roundtrip() {
    let year: u16 = kani::any();
    let month: u8 = kani::any();
    let day: u8 = kani::any();
    let h: u8 = kani::any();
    let m: u8 = kani::any();
    let s: u8 = kani::any();
    let r = Timestamp::from_calendar(year, month, day, h, m, s);
    let valid = (1970..=2225).contains(&year) && (1..=12).contains(&month) && (1..=31).contains(&day) && h <= 23 && m <= 59 && s <= 59;
    assert!(r.is_ok() == valid, "ts.calendar: accepts exactly the valid calendar fields");
    if let Ok(ts) = r {
        assert!(ts.year_since_1970 as u16 == year - 1970 && ts.zero_indexed_month == month - 1 && ts.zero_indexed_day == day - 1
            && ts.hours == h && ts.minutes == m && ts.seconds == s, "ts.calendar: fields");
        if (1980..=2107).contains(&year) {
            let enc = ts.serialize_to_fat();
            let time = u16::from_le_bytes([enc[0], enc[1]]);
            let date = u16::from_le_bytes([enc[2], enc[3]]);
            assert!(time == ((h as u16) << 11) | ((m as u16) << 5) | (s as u16 / 2), "ts.encode: time word layout");
            assert!(date == ((year - 1980) << 9) | ((month as u16) << 5) | day as u16, "ts.encode: date word layout");
            let back = Timestamp::from_fat(date, time);
            assert!(back.year_since_1970 == ts.year_since_1970 && back.zero_indexed_month == ts.zero_indexed_month
                && back.zero_indexed_day == ts.zero_indexed_day && back.hours == h && back.minutes == m
                && back.seconds == (s & !1), "ts.roundtrip: encode-then-decode up to 2 s rounding");
        }
    }
    kani::cover!(valid && year == 2107 && month == 12 && day == 31 && s == 59);
    kani::cover!(valid && year == 1980 && month == 1 && day == 1);
    kani::cover!(!valid);
}

// ------------------------------------------------------ directory entries ---

fn any_ts() -> Timestamp {
    let ts = Timestamp {
        year_since_1970: kani::any(),
        zero_indexed_month: kani::any(),
        zero_indexed_day: kani::any(),
        hours: kani::any(),
        minutes: kani::any(),
        seconds: kani::any(),
    };
    kani::assume(ts.year_since_1970 >= 10 && ts.year_since_1970 <= 137);
    kani::assume(ts.zero_indexed_month <= 11 && ts.zero_indexed_day <= 30);
    kani::assume(ts.hours <= 23 && ts.minutes <= 59 && ts.seconds <= 59);
    ts
}

fn spec_time(ts: &Timestamp) -> u16 {
    ((ts.hours as u16) << 11) | ((ts.minutes as u16) << 5) | (ts.seconds as u16 / 2)
}
fn spec_date(ts: &Timestamp) -> u16 {
    ((ts.year_since_1970 as u16 - 10) << 9) | ((ts.zero_indexed_month as u16 + 1) << 5) | (ts.zero_indexed_day as u16 + 1)
}
fn ts_eq_2s(a: &Timestamp, b: &Timestamp) -> bool {
    a.year_since_1970 == b.year_since_1970 && a.zero_indexed_month == b.zero_indexed_month && a.zero_indexed_day == b.zero_indexed_day
        && a.hours == b.hours && a.minutes == b.minutes && (a.seconds & !1) == (b.seconds & !1)
}

fn direntry_roundtrip(fat_type: FatType) {
    let name: [u8; 11] = kani::any();
    let attr: u8 = kani::any();
    let cluster: u32 = kani::any();
    match fat_type {
        FatType::Fat16 => kani::assume(cluster <= 0xFFFF),
        FatType::Fat32 => kani::assume(cluster <= 0x0FFF_FFFF),
    }
    let size: u32 = kani::any();
    let blk: u32 = kani::any();
    let off: u32 = kani::any();
    kani::assume(off < 512 && off % 32 == 0);
    let e = DirEntry {
        name: ShortFileName { contents: name },
        mtime: any_ts(),
        ctime: any_ts(),
        attributes: Attributes::create_from_fat(attr),
        cluster: ClusterId(cluster),
        size,
        entry_block: BlockIdx(blk),
        entry_offset: off,
    };
    let b = e.serialize(fat_type);
    // --- layout per the FAT specification (literal offsets) ---
    let mut i = 0;
    while i < 11 {
        assert!(b[i] == name[i], "dirent.layout: DIR_Name bytes 0..11");
        i += 1;
    }
    assert!(b[11] == attr, "dirent.layout: DIR_Attr at 11");
    assert!(b[12] == 0, "dirent.layout: DIR_NTRes at 12 must be 0");
    assert!(u16::from_le_bytes([b[14], b[15]]) == spec_time(&e.ctime), "dirent.layout: DIR_CrtTime at 14");
    assert!(u16::from_le_bytes([b[16], b[17]]) == spec_date(&e.ctime), "dirent.layout: DIR_CrtDate at 16");
    let hi = u16::from_le_bytes([b[20], b[21]]);
    match fat_type {
        FatType::Fat16 => assert!(hi == 0, "dirent.layout: DIR_FstClusHI at 20 must be 0 on FAT16"),
        FatType::Fat32 => assert!(hi as u32 == cluster >> 16, "dirent.layout: DIR_FstClusHI at 20"),
    }
    assert!(u16::from_le_bytes([b[22], b[23]]) == spec_time(&e.mtime), "dirent.layout: DIR_WrtTime at 22");
    assert!(u16::from_le_bytes([b[24], b[25]]) == spec_date(&e.mtime), "dirent.layout: DIR_WrtDate at 24");
    assert!(u16::from_le_bytes([b[26], b[27]]) as u32 == cluster & 0xFFFF, "dirent.layout: DIR_FstClusLO at 26");
    assert!(u32::from_le_bytes([b[28], b[29], b[30], b[31]]) == size, "dirent.layout: DIR_FileSize at 28");
    // --- decode ---
    let d = OnDiskDirEntry::new(&b).get_entry(fat_type, BlockIdx(blk), off);
    i = 0;
    while i < 11 {
        assert!(d.name.contents[i] == name[i], "dirent.roundtrip: name");
        i += 1;
    }
    assert!(d.attributes.0 == attr, "dirent.roundtrip: attributes");
    assert!(d.size == size, "dirent.roundtrip: size");
    if cluster == 0 && (attr & 0x10) != 0 {
        // cluster 0 in a directory entry designates the root directory
        assert!(d.cluster == ClusterId::ROOT_DIR, "dirent.roundtrip: cluster 0 of a directory means root");
    } else {
        assert!(d.cluster.0 == cluster, "dirent.roundtrip: start cluster");
    }
    assert!(ts_eq_2s(&d.mtime, &e.mtime), "dirent.roundtrip: mtime (2 s resolution)");
    assert!(ts_eq_2s(&d.ctime, &e.ctime), "dirent.roundtrip: ctime (2 s resolution)");
    assert!(d.entry_block.0 == blk && d.entry_offset == off, "dirent.roundtrip: position");
    kani::cover!((fat_type == FatType::Fat16 || cluster > 0xFFFF) && size == u32::MAX && attr == 0xFF);
    kani::cover!(cluster == 0 && attr == 0x10);
    kani::cover!(cluster == 0xFFFF && attr == 0x20);
}

#[kani::proof]
#[kani::unwind(13)]
fn c18_direntry_roundtrip_fat16() {
    direntry_roundtrip(FatType::Fat16);
}

#[kani::proof]
#[kani::unwind(13)]
fn c18_direntry_roundtrip_fat32() {
    direntry_roundtrip(FatType::Fat32);
}

/// Decoding any 32 bytes is total, and re-encoding a decoded entry whose date
/// fields are representable preserves name, attribute, cluster, size and the
/// time/date words (decode-then-encode on raw slots).
fn slot_decode_encode(fat_type: FatType) {
    let raw: [u8; 32] = kani::any();
    let d = OnDiskDirEntry::new(&raw).get_entry(fat_type, BlockIdx(7), 64);
    let cdate = u16::from_le_bytes([raw[16], raw[17]]);
    let mdate = u16::from_le_bytes([raw[24], raw[25]]);
    let ok_date = |x: u16| ((x >> 5) & 0xF) >= 1 && (x & 0x1F) >= 1;
    let e = d.serialize(fat_type);
    let mut i = 0;
    while i < 12 {
        assert!(e[i] == raw[i], "slot.reencode: name/attr");
        i += 1;
    }
    if ok_date(cdate) {
        assert!(e[14] == raw[14] && e[15] == raw[15] && e[16] == raw[16] && e[17] == raw[17], "slot.reencode: ctime words");
    }
    if ok_date(mdate) {
        assert!(e[22] == raw[22] && e[23] == raw[23] && e[24] == raw[24] && e[25] == raw[25], "slot.reencode: mtime words");
    }
    let is_dir_root = (raw[11] & 0x10) != 0 && raw[26] == 0 && raw[27] == 0 && (fat_type == FatType::Fat16 || (raw[20] == 0 && raw[21] == 0));
    if !is_dir_root {
        assert!(e[26] == raw[26] && e[27] == raw[27], "slot.reencode: cluster lo");
        if fat_type == FatType::Fat32 {
            assert!(e[20] == raw[20] && e[21] == raw[21], "slot.reencode: cluster hi");
        }
    }
    assert!(e[28] == raw[28] && e[29] == raw[29] && e[30] == raw[30] && e[31] == raw[31], "slot.reencode: size");
    kani::cover!(ok_date(cdate) && ok_date(mdate) && raw[11] == 0x0F);
    kani::cover!(is_dir_root);
}

#[kani::proof]
#[kani::unwind(13)]
fn c18_slot_decode_encode_fat16() {
    slot_decode_encode(FatType::Fat16);
}
#[kani::proof]
#[kani::unwind(13)]
fn c18_slot_decode_encode_fat32() {
    slot_decode_encode(FatType::Fat32);
}

// ----------------------------------------------------------- 8.3 parser ---

/// Characters the 8.3 grammar forbids (Microsoft's list plus space, which this
/// library does not allow inside short names), control characters, and
/// everything outside ISO-8859-1.
fn forbidden(c: u32) -> bool {
    c < 0x20
        || c > 0xFF
        || matches!(c, 0x22 | 0x2A | 0x2B | 0x2C | 0x2F | 0x3A | 0x3B | 0x3C | 0x3D | 0x3E | 0x3F | 0x5B | 0x5C | 0x5D | 0x7C | 0x20)
}

fn upper(c: u32) -> u8 {
    if (0x61..=0x7A).contains(&c) {
        (c - 0x20) as u8
    } else {
        c as u8
    }
}

/// Declarative reference: `cs[..n]` is a valid 8.3 name iff it is BASE or
/// BASE '.' EXT with 1..=8 base characters and 0..=3 extension characters,
/// none of them forbidden, and exactly that one optional dot.  Special names
/// "", "." and ".." designate directories.  Returns the 11 expected bytes.
fn ref_parse<const N: usize>(cs: &[u32; N], n: usize) -> Option<[u8; 11]> {
    let mut out = [b' '; 11];
    if n == 0 || (n == 1 && cs[0] == 0x2E) {
        out[0] = b'.';
        return Some(out);
    }
    if n == 2 && cs[0] == 0x2E && cs[1] == 0x2E {
        out[0] = b'.';
        out[1] = b'.';
        return Some(out);
    }
    // position of the first dot (if any)
    let mut dot = n;
    let mut i = 0;
    while i < N {
        if i < n && cs[i] == 0x2E && dot == n {
            dot = i;
        }
        i += 1;
    }
    let base_len = dot;
    let ext_len = if dot < n { n - dot - 1 } else { 0 };
    if base_len < 1 || base_len > 8 || ext_len > 3 {
        return None;
    }
    i = 0;
    while i < N {
        if i < n {
            if i != dot {
                if cs[i] == 0x2E || forbidden(cs[i]) {
                    return None; // second dot, or forbidden character
                }
                if i < dot {
                    out[i] = upper(cs[i]);
                } else {
                    out[8 + (i - dot - 1)] = upper(cs[i]);
                }
            }
        }
        i += 1;
    }
    Some(out)
}

/// Encode chars (each <= 0x7FF: 1- or 2-byte UTF-8) into `buf`, return length.
fn encode<const N: usize, const M: usize>(cs: &[u32; N], n: usize, buf: &mut [u8; M]) -> usize {
    let mut len = 0;
    let mut i = 0;
    while i < N {
        if i < n {
            let c = cs[i];
            if c < 0x80 {
                buf[len] = c as u8;
                len += 1;
            } else {
                buf[len] = 0xC0 | (c >> 6) as u8;
                buf[len + 1] = 0x80 | (c & 0x3F) as u8;
                len += 2;
            }
        }
        i += 1;
    }
    len
}

macro_rules! sfn_parse {
    ($name:ident, $n:expr, $unw:expr) => {
        #[kani::proof]
        #[kani::unwind($unw)]
        fn $name() {
            let cs: [u32; $n] = kani::any();
            let n: usize = kani::any();
            kani::assume(n <= $n);
            let mut i = 0;
            while i < $n {
                // every class the parser distinguishes lives below U+0800:
                // controls, ASCII punctuation/digits/letters, DEL, Latin-1 high
                // half (2-byte UTF-8), and non-Latin-1 (U+0100..U+07FF)
                kani::assume(cs[i] <= 0x7FF);
                i += 1;
            }
            let mut buf = [0u8; 2 * $n];
            let len = encode::<$n, { 2 * $n }>(&cs, n, &mut buf);
            let s = unsafe { core::str::from_utf8_unchecked(&buf[..len]) };
            let got = ShortFileName::create_from_str(s);
            let want = ref_parse::<$n>(&cs, n);
            match (&got, &want) {
                (Ok(g), Some(w)) => {
                    let mut k = 0;
                    while k < 11 {
                        assert!(g.contents[k] == w[k], "sfn.parse: wrong 11 bytes (upper-case, space padded, base at 0, extension at 8)");
                        k += 1;
                    }
                }
                (Ok(_), None) => assert!(false, "sfn.parse: accepted a string that is not a valid 8.3 name"),
                (Err(_), Some(_)) => assert!(false, "sfn.parse: rejected a valid 8.3 name"),
                (Err(_), None) => {}
            }
            kani::cover!(got.is_ok() && n == $n);
            kani::cover!(got.is_err() && n == $n);
            kani::cover!(got.is_ok() && n >= 2 && cs[0] > 0xFF - 0x40 && cs[0] <= 0xFF);
        }
    };
}
sfn_parse!(c18_sfn_parse_5, 5, 13);
sfn_parse!(c18_sfn_parse_9, 9, 21);
sfn_parse!(c18_sfn_parse_13, 13, 29);

/// Any ShortFileName produced by the parser prints (Display) to a string that
/// parses back to the same 11 bytes.  The Display impl is driven through a
/// byte sink; names are drawn from parsed 8.3 shapes with symbolic characters.
struct Sink {
    buf: [u8; 24],
    len: usize,
}
impl core::fmt::Write for Sink {
    fn write_str(&mut self, s: &str) -> core::fmt::Result {
        let b = s.as_bytes();
        let mut i = 0;
        while i < b.len() {
            if self.len >= 24 {
                return Err(core::fmt::Error);
            }
            self.buf[self.len] = b[i];
            self.len += 1;
            i += 1;
        }
        Ok(())
    }
}

fn display_roundtrip(base_len: usize, ext_len: usize) {
    use core::fmt::Write;
    let mut contents = [b' '; 11];
    let raw: [u8; 11] = kani::any();
    let mut i = 0;
    while i < 11 {
        let used = i < base_len || (i >= 8 && i < 8 + ext_len);
        if used {
            let c = raw[i] as u32;
            kani::assume(!forbidden(c) && c != 0x2E && !(0x61..=0x7A).contains(&c));
            contents[i] = raw[i];
        }
        i += 1;
    }
    let sfn = ShortFileName { contents };
    let mut sink = Sink { buf: [0; 24], len: 0 };
    let r = write!(sink, "{}", sfn);
    assert!(r.is_ok(), "sfn.display: formatting failed");
    let s = core::str::from_utf8(&sink.buf[..sink.len]);
    assert!(s.is_ok(), "sfn.display: printed bytes are not UTF-8");
    let back = ShortFileName::create_from_str(s.unwrap());
    assert!(back.is_ok(), "sfn.display: printed name does not parse");
    let back = back.unwrap();
    i = 0;
    while i < 11 {
        assert!(back.contents[i] == contents[i], "sfn.display: print-then-parse changed the 11 bytes");
        i += 1;
    }
    kani::cover!(sink.len == base_len + if ext_len > 0 { 1 + ext_len } else { 0 });
}

#[kani::proof]
#[kani::unwind(26)]
fn c18_sfn_display_roundtrip_8_3() {
    display_roundtrip(8, 3);
}
#[kani::proof]
#[kani::unwind(26)]
fn c18_sfn_display_roundtrip_3_1() {
    display_roundtrip(3, 1);
}
#[kani::proof]
#[kani::unwind(26)]
fn c18_sfn_display_roundtrip_5_0() {
    display_roundtrip(5, 0);
}
