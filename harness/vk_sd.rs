//! SD-card driver harnesses (crate::sdcard::vk_sd): C12 C13 C14.
//! `Card` is an SPI-mode SD card written from the SD Physical Layer
//! Simplified Specification (section 7), byte-exchange level, with a built-in
//! protocol monitor (first violation recorded in `viol`).
#![allow(dead_code, unused_imports)]
use super::*;
use embedded_hal::spi::{ErrorKind, ErrorType, Operation, SpiDevice};

#[derive(Debug, Clone, Copy)]
pub struct SpiErr;
impl embedded_hal::spi::Error for SpiErr {
    fn kind(&self) -> ErrorKind {
        ErrorKind::Other
    }
}
pub struct NoDelay;
impl embedded_hal::delay::DelayNs for NoDelay {
    fn delay_ns(&mut self, _ns: u32) {}
}

fn ref7_step(mut s: u8, b: u8) -> u8 {
    let mut d = b;
    let mut i = 0;
    while i < 8 {
        let top = ((s >> 6) & 1) ^ (d >> 7);
        s = (s << 1) & 0x7F;
        if top != 0 {
            s ^= 0x09;
        }
        d <<= 1;
        i += 1;
    }
    s
}
fn ref_crc7_5(f: &[u8; 6]) -> u8 {
    let mut s = 0;
    let mut i = 0;
    while i < 5 {
        s = ref7_step(s, f[i]);
        i += 1;
    }
    (s << 1) | 1
}
fn ref16_step(mut s: u16, b: u8) -> u16 {
    let mut d = b;
    let mut i = 0;
    while i < 8 {
        let top = ((s >> 15) as u8 & 1) ^ (d >> 7);
        s <<= 1;
        if top != 0 {
            s ^= 0x1021;
        }
        d <<= 1;
        i += 1;
    }
    s
}

pub const KIND_SD1: u8 = 0;
pub const KIND_SD2: u8 = 1;
pub const KIND_SDHC: u8 = 2;
pub const MEM: usize = 3; // card memory window: blocks base .. base+3

#[derive(Clone, Copy, PartialEq, Eq)]
enum Ph {
    Idle,     // waiting for a command frame
    Cmd,      // collecting a 6-byte frame
    RespWait, // N_CR bytes of 0xFF before the response
    RespOut,  // sending response bytes
    TokWait,  // read: 0xFF bytes before the data token
    DataOut,  // read: token already sent, sending payload then 2 crc bytes
    RecvTok,  // write: waiting for the data token from the host
    RecvData, // write: receiving 512 payload + 2 crc bytes
    RecvResp, // write: next byte out is the data response token
    Busy,     // holding MISO low
}
#[derive(Clone, Copy, PartialEq, Eq)]
enum After {
    Nothing,
    ReadBlock, // CMD17/18/CMD9: data block follows the response
    WriteBlock,
    BusyThenIdle,
}

pub struct Card {
    // ---- configuration (symbolic in harnesses) ----
    pub kind: u8,
    pub ncr: u8,
    pub ntok: u8,
    pub nbusy: u8,
    pub init_polls: u8,
    pub csd: [u8; 16],
    pub base: u32, // block number of mem[0]
    pub mem: [[u8; 512]; MEM],
    // fault knobs (C13)
    pub corrupt_crc: Option<u16>, // xor into the data crc sent by the card
    pub data_resp: u8,            // data response token for writes (0x05 accepted)
    pub status2: u8,              // second byte of the CMD13 R2 response
    pub bad_token: Option<u8>,    // sent instead of 0xFE
    pub corrupt_only_block: Option<u32>, // multi-block read: corrupt_crc applies to this block number only
    pub cmd58_r1: u8,             // extra R1 bits for CMD58 (non-zero = the command fails)
    // ---- protocol state ----
    pub spi_mode: bool, // CMD0 received
    pub ready: bool,    // ACMD41 completed
    pub v2_checked: bool, // CMD8 received
    pub crc_on: bool,
    pub app_cmd: bool,
    ph: Ph,
    frame: [u8; 6],
    flen: usize,
    wait: u8,
    resp: [u8; 6],
    rlen: usize,
    rpos: usize,
    after: After,
    addr: u32,       // block number of the current transfer
    multi: bool,     // CMD18 / CMD25 in progress
    reg: bool,       // the data block is the CSD register
    dpos: usize,     // position within payload+crc
    crc_acc: u16,    // running crc16 of the outgoing / incoming payload
    rbuf: [u8; 512], // incoming payload
    rcrc: u16,
    polls: u8,
    // ---- monitor / observations ----
    pub viol: Option<&'static str>,
    pub stopped_reads: u32,
    pub blocks_written: u32,
    pub last_write_addr: u32,
    pub oob_access: bool,
    pub preerase: u32,
}

impl Card {
    pub fn new(kind: u8) -> Card {
        Card {
            kind,
            ncr: 0,
            ntok: 0,
            nbusy: 0,
            init_polls: 0,
            csd: [0; 16],
            base: 0,
            mem: [[0; 512]; MEM],
            corrupt_crc: None,
            data_resp: 0x05,
            status2: 0,
            bad_token: None,
            corrupt_only_block: None,
            cmd58_r1: 0,
            spi_mode: false,
            ready: false,
            v2_checked: false,
            crc_on: false,
            app_cmd: false,
            ph: Ph::Idle,
            frame: [0; 6],
            flen: 0,
            wait: 0,
            resp: [0; 6],
            rlen: 0,
            rpos: 0,
            after: After::Nothing,
            addr: 0,
            multi: false,
            reg: false,
            dpos: 0,
            crc_acc: 0,
            rbuf: [0; 512],
            rcrc: 0,
            polls: 0,
            viol: None,
            stopped_reads: 0,
            blocks_written: 0,
            last_write_addr: 0,
            oob_access: false,
            preerase: 0,
        }
    }
    /// a card that has completed identification (state the driver's
    /// `card_type = Some(..)` corresponds to)
    pub fn new_ready(kind: u8, crc_on: bool) -> Card {
        let mut c = Card::new(kind);
        c.spi_mode = true;
        c.ready = true;
        c.v2_checked = true;
        c.crc_on = crc_on;
        c
    }
    fn flag(&mut self, what: &'static str) {
        if self.viol.is_none() {
            self.viol = Some(what);
        }
    }
    fn r1(&self) -> u8 {
        if self.ready {
            0x00
        } else {
            0x01
        }
    }
    fn respond(&mut self, bytes: &[u8], after: After) {
        let n = bytes.len();
        self.resp = [
            if n > 0 { bytes[0] } else { 0xFF },
            if n > 1 { bytes[1] } else { 0xFF },
            if n > 2 { bytes[2] } else { 0xFF },
            if n > 3 { bytes[3] } else { 0xFF },
            if n > 4 { bytes[4] } else { 0xFF },
            if n > 5 { bytes[5] } else { 0xFF },
        ];
        self.rlen = n;
        self.rpos = 0;
        self.after = after;
        self.wait = self.ncr;
        self.ph = Ph::RespWait;
    }
    fn block_addr(&mut self, arg: u32) -> u32 {
        if self.kind == KIND_SDHC {
            arg
        } else {
            if arg % 512 != 0 {
                self.flag("byte address of a standard-capacity card not block aligned");
            }
            arg / 512
        }
    }
    fn mem_get(&mut self, blk: u32, off: usize) -> u8 {
        if blk >= self.base && blk - self.base < MEM as u32 {
            self.mem[(blk - self.base) as usize][off]
        } else {
            self.oob_access = true;
            0
        }
    }

    fn execute(&mut self) {
        let f = self.frame;
        if f[0] & 0xC0 != 0x40 {
            self.flag("command frame without start bit 0 / transmission bit 1");
        }
        if f[5] & 1 != 1 {
            self.flag("command frame without end bit");
        }
        if f[5] != ref_crc7_5(&f) {
            self.flag("command frame with wrong CRC-7");
        }
        let idx = f[0] & 0x3F;
        let arg = ((f[1] as u32) << 24) | ((f[2] as u32) << 16) | ((f[3] as u32) << 8) | f[4] as u32;
        let was_app = self.app_cmd;
        self.app_cmd = false;
        if !self.spi_mode && idx != 0 {
            self.flag("command other than CMD0 before the card entered SPI mode");
        }
        let data_cmd = matches!(idx, 9 | 17 | 18 | 24 | 25 | 13) || (was_app && idx == 23);
        if data_cmd && !self.ready {
            self.flag("data/register command before identification completed");
        }
        match (was_app, idx) {
            (_, 0) => {
                self.spi_mode = true;
                self.ready = false;
                self.v2_checked = false;
                self.crc_on = false;
                self.polls = self.init_polls;
                self.multi = false;
                self.respond(&[0x01], After::Nothing);
            }
            (false, 59) => {
                self.crc_on = arg & 1 == 1;
                let r = self.r1();
                self.respond(&[r], After::Nothing);
            }
            (false, 8) => {
                if self.ready {
                    self.flag("CMD8 after initialisation");
                }
                self.v2_checked = true;
                if self.kind == KIND_SD1 {
                    self.respond(&[0x05], After::Nothing);
                } else {
                    self.respond(&[0x01, 0x00, 0x00, (arg >> 8) as u8 & 0x0F, arg as u8], After::Nothing);
                }
            }
            (false, 55) => {
                self.app_cmd = true;
                let r = self.r1();
                self.respond(&[r], After::Nothing);
            }
            (true, 41) => {
                if !self.v2_checked {
                    self.flag("ACMD41 before CMD8");
                }
                if self.kind != KIND_SD1 && arg & 0x4000_0000 == 0 {
                    self.flag("ACMD41 without HCS to a version-2 card");
                }
                if self.polls > 0 {
                    self.polls -= 1;
                    self.respond(&[0x01], After::Nothing);
                } else {
                    self.ready = true;
                    self.respond(&[0x00], After::Nothing);
                }
            }
            (false, 41) | (false, 23) => {
                self.flag("application command without CMD55 prefix");
                self.respond(&[0x05], After::Nothing);
            }
            (true, 23) => {
                self.preerase = arg;
                self.respond(&[0x00], After::Nothing);
            }
            (false, 58) => {
                let ocr0 = 0x80 | if self.kind == KIND_SDHC { 0x40 } else { 0x00 };
                let r = self.r1() | self.cmd58_r1;
                self.respond(&[r, ocr0, 0xFF, 0x80, 0x00], After::Nothing);
            }
            (false, 9) => {
                self.reg = true;
                self.multi = false;
                self.respond(&[0x00], After::ReadBlock);
            }
            (false, 13) => {
                let s2 = self.status2;
                self.respond(&[0x00, s2], After::Nothing);
            }
            (false, 17) | (false, 18) => {
                self.addr = self.block_addr(arg);
                self.reg = false;
                self.multi = idx == 18;
                self.respond(&[0x00], After::ReadBlock);
            }
            (false, 12) => {
                if !self.multi {
                    self.flag("CMD12 without a multi-block read in progress");
                }
                self.multi = false;
                self.stopped_reads += 1;
                // stuff byte, then R1, then busy
                self.respond(&[0x7F, 0x00], After::BusyThenIdle);
                self.wait = 0;
            }
            (false, 24) | (false, 25) => {
                self.addr = self.block_addr(arg);
                self.multi = idx == 25;
                self.respond(&[0x00], After::WriteBlock);
            }
            _ => {
                self.flag("command the specification does not define for this state");
                self.respond(&[0x04], After::Nothing);
            }
        }
    }

    /// One byte exchange: host drives `mosi`, card returns MISO.
    pub fn xfer(&mut self, mosi: u8) -> u8 {
        match self.ph {
            Ph::Idle => {
                if mosi != 0xFF {
                    if mosi & 0x80 != 0 {
                        self.flag("first byte of a frame without start bit 0");
                    }
                    self.frame[0] = mosi;
                    self.flen = 1;
                    self.ph = Ph::Cmd;
                }
                0xFF
            }
            Ph::Cmd => {
                self.frame[self.flen] = mosi;
                self.flen += 1;
                if self.flen == 6 {
                    self.execute();
                }
                0xFF
            }
            Ph::RespWait => {
                if mosi != 0xFF {
                    self.flag("host not idle (0xFF) while waiting for a response");
                }
                if self.wait > 0 {
                    self.wait -= 1;
                    0xFF
                } else {
                    self.ph = Ph::RespOut;
                    self.resp_byte()
                }
            }
            Ph::RespOut => {
                if mosi != 0xFF {
                    self.flag("host not idle (0xFF) during a response");
                }
                self.resp_byte()
            }
            Ph::TokWait => {
                if self.multi && mosi != 0xFF {
                    // CMD12 may arrive while the card prepares the next block
                    self.frame[0] = mosi;
                    self.flen = 1;
                    self.ph = Ph::Cmd;
                    return 0xFF;
                }
                if mosi != 0xFF {
                    self.flag("host not idle (0xFF) while waiting for the data token");
                }
                if self.wait > 0 {
                    self.wait -= 1;
                    0xFF
                } else {
                    self.dpos = 0;
                    self.crc_acc = 0;
                    self.ph = Ph::DataOut;
                    match self.bad_token {
                        Some(t) => t,
                        None => 0xFE,
                    }
                }
            }
            Ph::DataOut => {
                if mosi != 0xFF {
                    self.flag("host drives data (not 0xFF) while the card sends a data block");
                }
                let n = if self.reg { 16 } else { 512 };
                let out;
                if self.dpos < n {
                    let b = if self.reg { self.csd[self.dpos] } else { self.mem_get(self.addr, self.dpos) };
                    self.crc_acc = ref16_step(self.crc_acc, b);
                    out = b;
                } else {
                    let apply = match self.corrupt_only_block {
                        Some(b) => b == self.addr,
                        None => true,
                    };
                    let c = self.crc_acc ^ if apply { self.corrupt_crc.unwrap_or(0) } else { 0 };
                    out = if self.dpos == n { (c >> 8) as u8 } else { c as u8 };
                }
                self.dpos += 1;
                if self.dpos == n + 2 {
                    if self.multi {
                        self.addr += 1;
                        self.wait = self.ntok;
                        self.ph = Ph::TokWait;
                    } else {
                        self.ph = Ph::Idle;
                    }
                }
                out
            }
            Ph::RecvTok => {
                if mosi == 0xFF {
                    return 0xFF;
                }
                if self.multi {
                    if mosi == 0xFD {
                        self.multi = false;
                        self.wait = self.nbusy;
                        self.ph = Ph::Busy;
                        return 0xFF;
                    }
                    if mosi != 0xFC {
                        self.flag("multi-block write: data token is not 0xFC / stop token not 0xFD");
                    }
                } else if mosi != 0xFE {
                    self.flag("single-block write: data token is not 0xFE");
                }
                self.dpos = 0;
                self.crc_acc = 0;
                self.rcrc = 0;
                self.ph = Ph::RecvData;
                0xFF
            }
            Ph::RecvData => {
                if self.dpos < 512 {
                    self.rbuf[self.dpos] = mosi;
                    self.crc_acc = ref16_step(self.crc_acc, mosi);
                } else {
                    self.rcrc = (self.rcrc << 8) | mosi as u16;
                }
                self.dpos += 1;
                if self.dpos == 514 {
                    self.ph = Ph::RecvResp;
                }
                0xFF
            }
            Ph::RecvResp => {
                if mosi != 0xFF {
                    self.flag("host not idle (0xFF) while waiting for the data response");
                }
                if self.crc_on && self.rcrc != self.crc_acc {
                    self.flag("data block sent with a wrong CRC-16 while CRC is enabled");
                }
                let accepted = self.data_resp & 0x1F == 0x05;
                if accepted {
                    if self.addr >= self.base && self.addr - self.base < MEM as u32 {
                        self.mem[(self.addr - self.base) as usize] = self.rbuf;
                    } else {
                        self.oob_access = true;
                    }
                    self.blocks_written += 1;
                    self.last_write_addr = self.addr;
                }
                if self.multi {
                    self.addr += 1;
                }
                self.wait = self.nbusy;
                self.ph = Ph::Busy;
                self.data_resp
            }
            Ph::Busy => {
                if mosi != 0xFF {
                    self.flag("host sends while the card signals busy");
                }
                if self.wait > 0 {
                    self.wait -= 1;
                    0x00
                } else {
                    self.ph = if self.multi { Ph::RecvTok } else { Ph::Idle };
                    0xFF
                }
            }
        }
    }

    fn resp_byte(&mut self) -> u8 {
        let b = self.resp[self.rpos];
        self.rpos += 1;
        if self.rpos == self.rlen {
            match self.after {
                After::Nothing => self.ph = Ph::Idle,
                After::ReadBlock => {
                    self.wait = self.ntok;
                    self.ph = Ph::TokWait;
                }
                After::WriteBlock => self.ph = Ph::RecvTok,
                After::BusyThenIdle => {
                    self.wait = self.nbusy;
                    self.ph = Ph::Busy;
                }
            }
        }
        b
    }
    pub fn idle(&self) -> bool {
        self.ph == Ph::Idle
    }
}

/// SPI device wrapping the card; counts bytes, optional bus fault.
pub struct Spi {
    pub card: Card,
    pub nbytes: u32,
    pub fail_at: Option<u32>,
    pub fired: bool,
}
impl ErrorType for Spi {
    type Error = SpiErr;
}
impl Spi {
    fn x(&mut self, mosi: u8) -> Result<u8, SpiErr> {
        if self.fail_at == Some(self.nbytes) {
            self.fired = true;
            return Err(SpiErr);
        }
        self.nbytes += 1;
        Ok(self.card.xfer(mosi))
    }
}
impl SpiDevice<u8> for Spi {
    // The convenience methods are overridden so that the driver's calls do not go
    // through a stack array of `Operation`s (slice lengths of those arrays are not
    // constant-folded by symex; `transaction` is kept for completeness).
    fn read(&mut self, buf: &mut [u8]) -> Result<(), SpiErr> {
        let mut i = 0;
        while i < buf.len() {
            buf[i] = self.x(0xFF)?;
            i += 1;
        }
        Ok(())
    }
    fn write(&mut self, buf: &[u8]) -> Result<(), SpiErr> {
        let mut i = 0;
        while i < buf.len() {
            self.x(buf[i])?;
            i += 1;
        }
        Ok(())
    }
    fn transfer(&mut self, r: &mut [u8], w: &[u8]) -> Result<(), SpiErr> {
        let n = if r.len() > w.len() { r.len() } else { w.len() };
        let mut i = 0;
        while i < n {
            let o = if i < w.len() { w[i] } else { 0x00 };
            let v = self.x(o)?;
            if i < r.len() {
                r[i] = v;
            }
            i += 1;
        }
        Ok(())
    }
    fn transfer_in_place(&mut self, buf: &mut [u8]) -> Result<(), SpiErr> {
        let mut i = 0;
        while i < buf.len() {
            buf[i] = self.x(buf[i])?;
            i += 1;
        }
        Ok(())
    }
    fn transaction(&mut self, operations: &mut [Operation<'_, u8>]) -> Result<(), SpiErr> {
        for op in operations.iter_mut() {
            match op {
                Operation::Read(buf) => {
                    for b in buf.iter_mut() {
                        *b = self.x(0xFF)?;
                    }
                }
                Operation::Write(buf) => {
                    for b in buf.iter() {
                        self.x(*b)?;
                    }
                }
                Operation::Transfer(r, w) => {
                    let n = if r.len() > w.len() { r.len() } else { w.len() };
                    let mut i = 0;
                    while i < n {
                        let o = if i < w.len() { w[i] } else { 0x00 };
                        let v = self.x(o)?;
                        if i < r.len() {
                            r[i] = v;
                        }
                        i += 1;
                    }
                }
                Operation::TransferInPlace(buf) => {
                    for b in buf.iter_mut() {
                        *b = self.x(*b)?;
                    }
                }
                Operation::DelayNs(_) => {}
            }
        }
        Ok(())
    }
}

type Drv = SdCardInner<Spi, NoDelay>;

fn any_kind() -> u8 {
    let k: u8 = kani::any();
    kani::assume(k <= 2);
    k
}
fn kind_of(k: u8) -> CardType {
    match k {
        KIND_SD1 => CardType::SD1,
        KIND_SD2 => CardType::SD2,
        _ => CardType::SDHC,
    }
}
/// Card timings are concrete per harness instance (t = (response delay, data
/// token delay, busy bytes)): with symbolic timings the card's protocol phase
/// is symbolic at every byte and each byte exchange re-explores the whole
/// command decoder.
fn timed(mut c: Card, t: (u8, u8, u8)) -> Card {
    c.ncr = t.0;
    c.ntok = t.1;
    c.nbusy = t.2;
    c
}
fn driver(card: Card, kind: Option<u8>, use_crc: bool) -> Drv {
    SdCardInner { spi: Spi { card, nbytes: 0, fail_at: None, fired: false }, delayer: NoDelay, card_type: kind.map(kind_of), options: AcquireOpts { use_crc, acquire_retries: 2 } }
}

// ------------------------------------------------------------ C12 / C14 ---

/// Identification for one card kind / CRC option (concrete per instance),
/// response delay and number of ACMD41 polls symbolic: the driver identifies
/// the kind, leaves the card ready, CRC mode as requested, and the
/// conversation is legal (monitor).
fn acquire_kind(k: u8, use_crc: bool, max_delay: u8, max_polls: u8) {
    let mut card = Card::new(k);
    card.ncr = max_delay;
    card.init_polls = max_polls;
    let mut d = driver(card, None, use_crc);
    let r = d.check_init();
    assert!(r.is_ok(), "sd.init: a well-behaved card was not initialised");
    assert!(d.card_type == Some(kind_of(k)), "sd.kind: card kind identified wrongly");
    assert!(d.spi.card.ready && d.spi.card.crc_on == use_crc, "sd.init: card not ready / CRC mode not as requested");
    assert!(d.spi.card.viol.is_none(), "sd.proto: illegal SPI-mode conversation during identification");
    kani::cover!(d.spi.card.ready);
}
macro_rules! acquire_h {
    ($name:ident, $k:expr, $crc:expr, $d:expr, $p:expr) => {
        #[kani::proof]
        #[kani::unwind(12)]
        fn $name() {
            acquire_kind($k, $crc, $d, $p);
        }
    };
}
acquire_h!(c12_acquire_sdhc_crc, KIND_SDHC, true, 1, 1);
acquire_h!(c12_acquire_sd1_nocrc, KIND_SD1, false, 1, 1);
acquire_h!(c12_acquire_sd2_crc, KIND_SD2, true, 1, 1);
acquire_h!(c12_acquire_sdhc_nocrc_d2, KIND_SDHC, false, 2, 2);
acquire_h!(c12_acquire_sd1_crc_d2, KIND_SD1, true, 2, 2);
acquire_h!(c12_acquire_probe, KIND_SDHC, false, 0, 0);

fn sym_mem(card: &mut Card, base: u32) {
    card.base = base;
    card.mem = kani::any();
}

/// Single-block read of block `blk`: returns exactly the card's block; the
/// card's memory is unchanged; the conversation is legal.
fn read_one(k: u8, use_crc: bool, base: u32, blk: u32, t: (u8, u8, u8)) {
    let mut card = timed(Card::new_ready(k, use_crc), t);
    sym_mem(&mut card, base);
    let before = card.mem;
    let mut d = driver(card, Some(k), use_crc);
    let mut blocks = [Block::new()];
    let r = d.read(&mut blocks, BlockIdx(blk));
    assert!(r.is_ok(), "sd.read: read of a good block failed");
    let p: usize = kani::any();
    kani::assume(p < 512);
    assert!(blocks[0].contents[p] == before[(blk - base) as usize][p], "sd.read: data differs from the addressed block");
    let q: usize = kani::any();
    kani::assume(q < MEM);
    assert!(d.spi.card.mem[q][p] == before[q][p], "sd.read: a read changed card memory");
    assert!(!d.spi.card.oob_access, "sd.addr: card accessed at a block outside the addressed one");
    assert!(d.spi.card.viol.is_none(), "sd.proto: illegal SPI-mode conversation during a single-block read");
    assert!(d.spi.card.idle(), "sd.proto: transfer not complete when the call returned");
    kani::cover!(d.spi.card.idle());
}
macro_rules! read_one_h {
    ($name:ident, $k:expr, $crc:expr, $base:expr, $blk:expr, $t:expr) => {
        #[kani::proof]
        #[kani::unwind(516)]
        fn $name() {
            read_one($k, $crc, $base, $blk, $t);
        }
    };
}
read_one_h!(c12_read1_sdhc_crc, KIND_SDHC, true, 7, 8, (1, 2, 1));
read_one_h!(c12_read1_sd1_nocrc, KIND_SD1, false, 0x7F_FFFE, 0x7F_FFFF, (0, 0, 0));
read_one_h!(c12_read1_sd2_crc, KIND_SD2, true, 0, 0, (2, 1, 2));
read_one_h!(c12_read1_sdhc_nocrc_high, KIND_SDHC, false, 0xFFFF_FFFD, 0xFFFF_FFFF, (2, 2, 2));

/// Two-block read = the two single blocks in order, ended by CMD12.
fn read_two(k: u8, use_crc: bool, base: u32, t: (u8, u8, u8)) {
    let mut card = timed(Card::new_ready(k, use_crc), t);
    sym_mem(&mut card, base);
    let before = card.mem;
    let mut d = driver(card, Some(k), use_crc);
    let mut blocks = [Block::new(), Block::new()];
    let r = d.read(&mut blocks, BlockIdx(base + 1));
    assert!(r.is_ok(), "sd.read: multi-block read failed");
    let p: usize = kani::any();
    kani::assume(p < 512);
    assert!(blocks[0].contents[p] == before[1][p] && blocks[1].contents[p] == before[2][p], "sd.read: multi-block data differs from the addressed blocks");
    assert!(d.spi.card.stopped_reads == 1, "sd.proto: multi-block read not ended by exactly one CMD12");
    assert!(d.spi.card.viol.is_none(), "sd.proto: illegal SPI-mode conversation during a multi-block read");
    assert!(!d.spi.card.oob_access, "sd.addr: card accessed outside the addressed blocks");
    kani::cover!(d.spi.card.stopped_reads == 1);
}
#[kani::proof]
#[kani::unwind(516)]
fn c12_read2_sdhc_crc() {
    read_two(KIND_SDHC, true, 100, (1, 1, 1));
}
#[kani::proof]
#[kani::unwind(516)]
fn c12_read2_sd2_nocrc() {
    read_two(KIND_SD2, false, 4, (0, 2, 0));
}

/// Single-block write: exactly the addressed block changes, to the given bytes.
fn write_one(k: u8, use_crc: bool, base: u32, blk: u32, t: (u8, u8, u8)) {
    let mut card = timed(Card::new_ready(k, use_crc), t);
    sym_mem(&mut card, base);
    let before = card.mem;
    let mut d = driver(card, Some(k), use_crc);
    let blocks = [Block { contents: kani::any() }];
    let r = d.write(&blocks, BlockIdx(blk));
    assert!(r.is_ok(), "sd.write: write to a good card failed");
    let p: usize = kani::any();
    let q: usize = kani::any();
    kani::assume(p < 512 && q < MEM);
    if q as u32 == blk - base {
        assert!(d.spi.card.mem[q][p] == blocks[0].contents[p], "sd.write: addressed block does not hold the written bytes");
    } else {
        assert!(d.spi.card.mem[q][p] == before[q][p], "sd.write: a block other than the addressed one changed");
    }
    assert!(d.spi.card.blocks_written == 1 && !d.spi.card.oob_access, "sd.addr: not exactly one block written at the addressed number");
    assert!(d.spi.card.viol.is_none(), "sd.proto: illegal SPI-mode conversation during a single-block write");
    assert!(d.spi.card.idle(), "sd.proto: transfer not complete when the call returned");
    kani::cover!(d.spi.card.blocks_written == 1);
}
macro_rules! write_one_h {
    ($name:ident, $k:expr, $crc:expr, $base:expr, $blk:expr, $t:expr) => {
        #[kani::proof]
        #[kani::unwind(516)]
        fn $name() {
            write_one($k, $crc, $base, $blk, $t);
        }
    };
}
write_one_h!(c12_write1_sdhc_crc, KIND_SDHC, true, 7, 8, (1, 0, 2));
write_one_h!(c12_write1_sd1_nocrc, KIND_SD1, false, 0, 2, (0, 0, 0));
write_one_h!(c12_write1_sd2_crc, KIND_SD2, true, 1000, 1000, (2, 0, 1));

/// Two-block write = two single writes, pre-erase announced, ended by the stop token.
fn write_two(k: u8, use_crc: bool, base: u32, t: (u8, u8, u8)) {
    let mut card = timed(Card::new_ready(k, use_crc), t);
    sym_mem(&mut card, base);
    let before = card.mem;
    let mut d = driver(card, Some(k), use_crc);
    let blocks = [Block { contents: kani::any() }, Block { contents: kani::any() }];
    let r = d.write(&blocks, BlockIdx(base));
    assert!(r.is_ok(), "sd.write: multi-block write failed");
    let p: usize = kani::any();
    kani::assume(p < 512);
    assert!(d.spi.card.mem[0][p] == blocks[0].contents[p] && d.spi.card.mem[1][p] == blocks[1].contents[p], "sd.write: multi-block data not stored at the addressed blocks in order");
    assert!(d.spi.card.mem[2][p] == before[2][p], "sd.write: a block beyond the transfer changed");
    assert!(d.spi.card.blocks_written == 2 && d.spi.card.preerase == 2, "sd.write: block count / pre-erase count");
    assert!(d.spi.card.viol.is_none(), "sd.proto: illegal SPI-mode conversation during a multi-block write");
    assert!(d.spi.card.idle() || d.spi.card.ph == Ph::Busy, "sd.proto: multi-block write not ended by the stop token");
    assert!(!d.spi.card.multi, "sd.proto: multi-block write not ended by the stop token");
}
#[kani::proof]
#[kani::unwind(516)]
fn c12_write2_sdhc_crc() {
    write_two(KIND_SDHC, true, 50, (1, 0, 1));
}
#[kani::proof]
#[kani::unwind(516)]
fn c12_write2_sd1_nocrc() {
    write_two(KIND_SD1, false, 0, (0, 0, 2));
}

/// Capacity: the value the driver reports equals the capacity encoded in the
/// CSD register *for the structure version that register carries*.
fn capacity_from_csd(k: u8, use_crc: bool) {
    let mut card = timed(Card::new_ready(k, use_crc), (1, 1, 0));
    card.csd = kani::any();
    let csd = card.csd;
    let ver = csd[0] >> 6;
    // a card's CSD structure version matches its capacity class
    if k == KIND_SDHC {
        kani::assume(ver == 1);
    } else {
        kani::assume(ver == 0);
    }
    // capacity must be representable in the 32-bit block count the API returns
    // (C_SIZE 0x3FFFFF of a CSD v2 register encodes exactly 2^32 blocks = 2 TiB)
    kani::assume(ver == 0 || !(csd[7] & 0x3F == 0x3F && csd[8] == 0xFF && csd[9] == 0xFF));
    // READ_BL_LEN of a standard-capacity card is 9, 10 or 11 (SD spec 5.3.2)
    kani::assume(ver == 1 || ((csd[5] & 0x0F) >= 9 && (csd[5] & 0x0F) <= 11));
    let mut d = driver(card, Some(k), use_crc);
    let r = d.num_blocks();
    assert!(r.is_ok(), "sd.csd: reading the CSD failed");
    let want: u64 = if ver == 1 {
        let c_size = (((csd[7] & 0x3F) as u64) << 16) | ((csd[8] as u64) << 8) | csd[9] as u64;
        (c_size + 1) * 1024
    } else {
        let c_size = (((csd[6] & 0x03) as u64) << 10) | ((csd[7] as u64) << 2) | ((csd[8] >> 6) as u64);
        let mult = (((csd[9] & 0x03) << 1) | (csd[10] >> 7)) as u32;
        let read_bl_len = (csd[5] & 0x0F) as u32;
        ((c_size + 1) << (mult + 2 + read_bl_len)) / 512
    };
    assert!(r.unwrap().0 as u64 == want, "sd.capacity: reported block count != capacity encoded in the CSD for its structure version");
    assert!(d.spi.card.viol.is_none(), "sd.proto: illegal conversation while reading the CSD");
    kani::cover!(want > 1_000_000);
}
#[kani::proof]
#[kani::unwind(20)]
fn c12_capacity_sd1() {
    capacity_from_csd(KIND_SD1, false);
}
#[kani::proof]
#[kani::unwind(20)]
fn c12_capacity_sd2() {
    capacity_from_csd(KIND_SD2, true);
}
#[kani::proof]
#[kani::unwind(20)]
fn c12_capacity_sdhc() {
    capacity_from_csd(KIND_SDHC, true);
}

// ------------------------------------------------------------------ C13 ---

/// CRC on: whatever 16-bit value the card appends, the read succeeds only if
/// it equals the CRC-16 of the data actually received.
#[kani::proof]
#[kani::unwind(516)]
fn c13_read_crc_mismatch_rejected() {
    let k = KIND_SDHC;
    let mut card = Card::new_ready(k, true);
    sym_mem(&mut card, 3);
    let x: u16 = kani::any();
    card.corrupt_crc = Some(x);
    let mut d = driver(card, Some(k), true);
    let mut blocks = [Block::new()];
    let r = d.read(&mut blocks, BlockIdx(4));
    assert!(r.is_ok() == (x == 0), "sd.crc: read succeeded with a CRC that does not match the received data (or failed with a matching one)");
    kani::cover!(x == 0);
    kani::cover!(x == 0x8000);
}

/// Either CRC mode: rejected data response, failed status, wrong token, bus error -> Err.
#[kani::proof]
#[kani::unwind(516)]
fn c13_write_faults_reported() {
    let k = KIND_SD2;
    let use_crc: bool = false;
    let mut card = Card::new_ready(k, use_crc);
    card.base = 0;
    card.data_resp = kani::any();
    card.status2 = kani::any();
    kani::assume(card.data_resp & 0x80 == 0 || true);
    let accepted = card.data_resp & 0x1F == 0x05;
    let status_ok = card.status2 == 0;
    let mut d = driver(card, Some(k), use_crc);
    let blocks = [Block { contents: kani::any() }];
    let r = d.write(&blocks, BlockIdx(1));
    if !accepted || !status_ok {
        assert!(r.is_err(), "sd.write_fault: a write the card did not accept / reported as failed returned Ok");
    } else {
        assert!(r.is_ok(), "sd.write: accepted write reported as failed");
    }
    kani::cover!(!accepted);
    kani::cover!(accepted && !status_ok);
    kani::cover!(accepted && status_ok);
}

#[kani::proof]
#[kani::unwind(516)]
fn c13_read_bad_token_or_bus_error() {
    let k = KIND_SD1;
    let use_crc: bool = true;
    let mut card = Card::new_ready(k, use_crc);
    sym_mem(&mut card, 0);
    let bus: bool = kani::any();
    let mut d = driver(card, Some(k), use_crc);
    if bus {
        let n: u32 = kani::any();
        kani::assume(n < 530);
        d.spi.fail_at = Some(n);
    } else {
        let t: u8 = kani::any();
        kani::assume(t != 0xFE && t != 0xFF);
        d.spi.card.bad_token = Some(t);
    }
    let mut blocks = [Block::new()];
    let r = d.read(&mut blocks, BlockIdx(0));
    if !bus || d.spi.fired {
        assert!(r.is_err(), "sd.read_fault: a read with a wrong data token / SPI bus error returned Ok");
    }
    kani::cover!(bus && d.spi.fired && d.spi.fail_at == Some(520));
    kani::cover!(!bus);
}



// ------------------------------------------------- C13 (b): termination ---
// Fully adversarial peer: every MISO byte is arbitrary, the bus may fail at any
// byte.  The three Delay budgets are stubbed to an arbitrary value <= 2 (the
// real ones are 10 000 / 50 000); every driver call must return within the
// closed-form bound on SPI bytes for those budgets, and Kani's unwinding
// assertions prove that no loop runs past its budget.

pub struct Evil {
    pub nbytes: u32,
    pub fail_at: Option<u32>,
    pub fired: bool,
}
impl ErrorType for Evil {
    type Error = SpiErr;
}
impl Evil {
    fn x(&mut self) -> Result<u8, SpiErr> {
        if self.fail_at == Some(self.nbytes) {
            self.fired = true;
            return Err(SpiErr);
        }
        self.nbytes += 1;
        Ok(kani::any())
    }
}
impl SpiDevice<u8> for Evil {
    fn read(&mut self, buf: &mut [u8]) -> Result<(), SpiErr> {
        let mut i = 0;
        while i < buf.len() {
            buf[i] = self.x()?;
            i += 1;
        }
        Ok(())
    }
    fn write(&mut self, buf: &[u8]) -> Result<(), SpiErr> {
        let mut i = 0;
        while i < buf.len() {
            self.x()?;
            i += 1;
        }
        Ok(())
    }
    fn transfer(&mut self, r: &mut [u8], w: &[u8]) -> Result<(), SpiErr> {
        let n = if r.len() > w.len() { r.len() } else { w.len() };
        let mut i = 0;
        while i < n {
            let v = self.x()?;
            if i < r.len() {
                r[i] = v;
            }
            i += 1;
        }
        Ok(())
    }
    fn transfer_in_place(&mut self, buf: &mut [u8]) -> Result<(), SpiErr> {
        let mut i = 0;
        while i < buf.len() {
            buf[i] = self.x()?;
            i += 1;
        }
        Ok(())
    }
    fn transaction(&mut self, _operations: &mut [Operation<'_, u8>]) -> Result<(), SpiErr> {
        Err(SpiErr)
    }
}

const BUDGET: u32 = 2;
fn small_delay() -> Delay {
    let b: u32 = kani::any();
    kani::assume(b <= BUDGET);
    Delay::new(b)
}
type EvilDrv = SdCardInner<Evil, NoDelay>;
fn evil_driver(kind: Option<u8>, use_crc: bool, retries: u32) -> EvilDrv {
    let fail_at = if kani::any() { Some(kani::any()) } else { None };
    SdCardInner { spi: Evil { nbytes: 0, fail_at, fired: false }, delayer: NoDelay, card_type: kind.map(kind_of), options: AcquireOpts { use_crc, acquire_retries: retries } }
}
// bytes of one card_command with budget B: busy wait <= B+1, frame 6, stuff 1, response poll <= B+1
const CMD_MAX: u32 = 2 * (BUDGET + 1) + 7;

/// Delay::delay itself: Err exactly when the budget is exhausted, else one tick.
#[kani::proof]
fn c13_delay_budget_step() {
    let n: u32 = kani::any();
    let mut d = Delay::new(n);
    let mut nd = NoDelay;
    let r = d.delay(&mut nd, Error::TimeoutCommand(0));
    assert!(r.is_err() == (n == 0), "sd.delay: delay() must fail exactly when the budget is exhausted");
    if n > 0 {
        assert!(d.retries_left == n - 1, "sd.delay: budget not decremented by one");
    }
    kani::cover!(n == 0);
    kani::cover!(n == u32::MAX);
}

#[kani::proof]
#[kani::unwind(10)]
#[kani::stub(Delay::new_command, small_delay)]
#[kani::stub(Delay::new_read, small_delay)]
#[kani::stub(Delay::new_write, small_delay)]
fn c13_bounded_card_command() {
    let mut d = evil_driver(Some(any_kind()), kani::any(), 1);
    let cmd: u8 = kani::any();
    kani::assume(cmd < 64);
    let _ = d.card_command(cmd, kani::any());
    assert!(d.spi.nbytes <= CMD_MAX, "sd.bounded: card_command exceeded its SPI traffic bound");
    kani::cover!(d.spi.nbytes == CMD_MAX - 1);
}

#[kani::proof]
#[kani::unwind(516)]
#[kani::stub(Delay::new_command, small_delay)]
#[kani::stub(Delay::new_read, small_delay)]
#[kani::stub(Delay::new_write, small_delay)]
fn c13_bounded_read_single() {
    let use_crc: bool = false; // the CRC comparison is c13_read_crc_mismatch_rejected's
    let mut d = evil_driver(Some(KIND_SDHC), use_crc, 1);
    let mut blocks = [Block::new()];
    let r = d.read(&mut blocks, BlockIdx(kani::any::<u32>() & 0x003F_FFFF));
    // command + token poll (<= B+1) + 512 + 2
    assert!(d.spi.nbytes <= CMD_MAX + (BUDGET + 1) + 514, "sd.bounded: single-block read exceeded its SPI traffic bound");
    if d.spi.fired {
        assert!(r.is_err(), "sd.bus: SPI bus error swallowed by read");
    }
    kani::cover!(r.is_ok());
    kani::cover!(matches!(r, Err(Error::TimeoutReadBuffer)));
}

#[kani::proof]
#[kani::unwind(516)]
#[kani::stub(Delay::new_command, small_delay)]
#[kani::stub(Delay::new_read, small_delay)]
#[kani::stub(Delay::new_write, small_delay)]
fn c13_bounded_write_single() {
    let use_crc: bool = false;
    let mut d = evil_driver(Some(KIND_SD1), use_crc, 1);
    let blocks = [Block { contents: kani::any() }];
    let r = d.write(&blocks, BlockIdx(kani::any::<u32>() & 0x003F_FFFF));
    // CMD24 + token 1 + 512 + 2 + response 1 + busy wait (B+1) + CMD13 + 1
    assert!(d.spi.nbytes <= CMD_MAX + 516 + (BUDGET + 1) + CMD_MAX + 1, "sd.bounded: single-block write exceeded its SPI traffic bound");
    if d.spi.fired {
        assert!(r.is_err(), "sd.bus: SPI bus error swallowed by write");
    }
    kani::cover!(r.is_ok());
    kani::cover!(matches!(r, Err(Error::TimeoutWaitNotBusy)));
}

/// Initialisation against the adversarial peer: returns within the bound; a
/// failed initialisation leaves the card marked uninitialised.
#[kani::proof]
#[kani::unwind(8)]
#[kani::stub(Delay::new_command, small_delay)]
#[kani::stub(Delay::new_read, small_delay)]
#[kani::stub(Delay::new_write, small_delay)]
fn c13_bounded_acquire() {
    let use_crc: bool = kani::any();
    let mut d = evil_driver(None, use_crc, 1);
    let r = d.check_init();
    // (retries+1) x (CMD0 + 255 flush bytes) + CMD59 + (B+1) x (CMD8 + 4) + (B+1) x 2 commands + CMD58 + 4 + trailing byte
    let bound = 2 * (CMD_MAX + 255) + CMD_MAX + (BUDGET + 1) * (CMD_MAX + 4) + (BUDGET + 1) * 2 * CMD_MAX + CMD_MAX + 4 + 1;
    assert!(d.spi.nbytes <= bound, "sd.bounded: initialisation exceeded its SPI traffic bound");
    match r {
        Ok(()) => assert!(d.card_type.is_some(), "sd.init: Ok without a card type"),
        Err(_) => assert!(d.card_type.is_none(), "sd.init_failed: failed initialisation left the card marked initialised"),
    }
    kani::cover!(r.is_ok() && d.card_type == Some(CardType::SDHC));
    kani::cover!(matches!(r, Err(Error::CardNotFound)));
    kani::cover!(matches!(r, Err(Error::Cmd58Error)));
}

// ------------------------------------------------- C14: re-initialisation ---
/// After mark_card_uninit a card in any identification state is initialised
/// again with a legal conversation (CMD0 first).
#[kani::proof]
#[kani::unwind(12)]
fn c14_reinit_after_uninit() {
    let k = KIND_SDHC;
    let crc_before: bool = kani::any();
    let use_crc: bool = kani::any();
    let mut card = Card::new_ready(k, crc_before);
    card.ncr = 1;
    card.init_polls = 1;
    let mut d = driver(card, None, use_crc); // card_type None = marked uninitialised
    let r = d.check_init();
    assert!(r.is_ok() && d.card_type == Some(CardType::SDHC), "sd.reinit: card not initialised again after mark_card_uninit");
    assert!(d.spi.card.crc_on == use_crc, "sd.reinit: CRC mode not as requested after re-initialisation");
    assert!(d.spi.card.viol.is_none(), "sd.proto: illegal SPI-mode conversation during re-initialisation");
    kani::cover!(crc_before && !use_crc);
}


// ------------------------------------------------ further C13 / C14 cases ---

/// Initialisation that fails at the CMD58 step (non-zero R1): the call reports
/// the error and the card stays marked uninitialised, so the next call starts
/// identification again (CMD0 first).
#[kani::proof]
#[kani::unwind(12)]
fn c13_failed_init_at_cmd58_stays_uninit() {
    let use_crc: bool = kani::any();
    let mut card = Card::new(KIND_SDHC);
    card.ncr = 1;
    let bits: u8 = kani::any();
    kani::assume(bits != 0 && bits & 0x80 == 0);
    card.cmd58_r1 = bits;
    let mut d = driver(card, None, use_crc);
    let r = d.check_init();
    assert!(r.is_err(), "sd.init: CMD58 failure not reported");
    assert!(d.card_type.is_none(), "sd.init_failed: failed initialisation left the card marked initialised");
    assert!(d.spi.card.viol.is_none(), "sd.proto: illegal conversation during a failing identification");
    kani::cover!(bits == 0x04);
}

/// Multi-block read with CRC on: a CRC mismatch in the FIRST block fails the call.
#[kani::proof]
#[kani::unwind(516)]
fn c13_read2_crc_mismatch_first_block() {
    let mut card = timed(Card::new_ready(KIND_SDHC, true), (0, 0, 0));
    sym_mem(&mut card, 10);
    let x: u16 = kani::any();
    kani::assume(x != 0);
    card.corrupt_crc = Some(x);
    card.corrupt_only_block = Some(10);
    let mut d = driver(card, Some(KIND_SDHC), true);
    let mut blocks = [Block::new(), Block::new()];
    let r = d.read(&mut blocks, BlockIdx(10));
    assert!(r.is_err(), "sd.crc: multi-block read succeeded although a block's CRC did not match");
    kani::cover!(x == 1);
}

/// Same with the card's memory concrete (the CRC of each block is then a
/// constant and only the corruption is symbolic): cheap enough for every change.
#[kani::proof]
#[kani::unwind(516)]
fn c13_read2_crc_mismatch_first_block_fixed_data() {
    let mut card = timed(Card::new_ready(KIND_SDHC, true), (0, 0, 0));
    card.base = 10;
    let x: u16 = kani::any();
    kani::assume(x != 0);
    card.corrupt_crc = Some(x);
    card.corrupt_only_block = Some(10);
    let mut d = driver(card, Some(KIND_SDHC), true);
    let mut blocks = [Block::new(), Block::new()];
    let r = d.read(&mut blocks, BlockIdx(10));
    assert!(r.is_err(), "sd.crc: multi-block read succeeded although a block's CRC did not match");
    kani::cover!(x == 1);
}

/// A command issued while the card still signals busy (left over from the
/// previous operation): the driver waits for the busy period to end before the
/// first byte of the frame - also for the CMD55 prefix of application commands.
fn waits_for_busy(app: bool, busy: u8) {
    let mut card = Card::new_ready(KIND_SDHC, false);
    card.ncr = 1;
    card.ph = Ph::Busy;
    card.wait = busy;
    let mut d = driver(card, Some(KIND_SDHC), false);
    let r = if app { d.card_acmd(ACMD23, 5) } else { d.card_command(CMD13, 0) };
    assert!(r.is_ok(), "sd.busy: command after a busy period failed");
    assert!(d.spi.card.viol.is_none(), "sd.proto: command sent while the card signals busy");
    if app {
        assert!(d.spi.card.preerase == 5, "sd.proto: application command not executed");
    }
    kani::cover!(r.is_ok());
}
#[kani::proof]
#[kani::unwind(12)]
fn c14_acmd_waits_for_busy() {
    waits_for_busy(true, 2);
}
#[kani::proof]
#[kani::unwind(12)]
fn c14_command_waits_for_busy() {
    waits_for_busy(false, 1);
}

#[kani::proof]
#[kani::unwind(14)]
fn c12_command_max_response_delay() {
    let mut card = Card::new_ready(KIND_SD2, false);
    card.ncr = 8;
    let mut d = driver(card, Some(KIND_SD2), false);
    let r = d.card_command(CMD13, 0);
    assert!(matches!(r, Ok(0)), "sd.timing: a response after the maximum legal delay of 8 bytes was not accepted");
    assert!(d.spi.card.viol.is_none(), "sd.proto: illegal conversation");
    kani::cover!(r.is_ok());
}
