//! Shared harness code (crate::vk_common): symbolic block devices, clock,
//! and the specification-side FAT reader used as oracle.
#![allow(dead_code)]
use crate::filesystem::{TimeSource, Timestamp};
use crate::{Block, BlockCount, BlockDevice, BlockIdx};
use core::cell::{Cell, RefCell};

#[derive(Debug, Clone, Copy, PartialEq, Eq)]
pub struct DevErr;

/// Clock returning one arbitrary (fixed per harness run) valid timestamp.
pub struct Clock(pub Timestamp);
impl TimeSource for Clock {
    fn get_timestamp(&self) -> Timestamp {
        self.0
    }
}
pub fn any_timestamp() -> Timestamp {
    let ts = Timestamp {
        year_since_1970: kani::any(),
        zero_indexed_month: kani::any(),
        zero_indexed_day: kani::any(),
        hours: kani::any(),
        minutes: kani::any(),
        seconds: kani::any(),
    };
    kani::assume(ts.year_since_1970 >= 10 && ts.year_since_1970 <= 137);
    kani::assume(ts.zero_indexed_month <= 11 && ts.zero_indexed_day <= 30);
    kani::assume(ts.hours <= 23 && ts.minutes <= 59 && ts.seconds <= 59 && ts.seconds % 2 == 0);
    ts
}
pub fn fixed_timestamp() -> Timestamp {
    Timestamp { year_since_1970: 54, zero_indexed_month: 2, zero_indexed_day: 4, hours: 13, minutes: 30, seconds: 4 }
}

pub fn any_block() -> Block {
    Block { contents: kani::any() }
}

// ---------------------------------------------------------------------------
// MountDisk: role-keyed device for the mount harnesses (C15).  Block 0 is the
// MBR, the block the MBR names as partition start is the boot sector, every
// other block is the (FAT32) information sector.  Never written.
// ---------------------------------------------------------------------------
pub struct MountDisk {
    pub mbr: Block,
    pub boot: Block,
    pub info: Block,
    pub lba: u32,
    pub reads: Cell<u32>,
    pub writes: Cell<u32>,
}
impl BlockDevice for MountDisk {
    type Error = DevErr;
    fn read(&self, blocks: &mut [Block], start: BlockIdx) -> Result<(), DevErr> {
        assert!(blocks.len() == 1, "device: multi-block read");
        self.reads.set(self.reads.get() + 1);
        if start.0 == 0 {
            blocks[0] = self.mbr.clone();
        } else if start.0 == self.lba {
            blocks[0] = self.boot.clone();
        } else {
            blocks[0] = self.info.clone();
        }
        Ok(())
    }
    fn write(&self, _blocks: &[Block], _start: BlockIdx) -> Result<(), DevErr> {
        self.writes.set(self.writes.get() + 1);
        Ok(())
    }
    fn num_blocks(&self) -> Result<BlockCount, DevErr> {
        Ok(BlockCount(u32::MAX))
    }
}

// ---------------------------------------------------------------------------
// NullDisk: a device that must never be touched (C08 "no effect" clauses).
// Every access is counted; reads return an arbitrary block.
// ---------------------------------------------------------------------------
pub struct NullDisk {
    pub reads: Cell<u32>,
    pub writes: Cell<u32>,
}
impl NullDisk {
    pub fn new() -> Self {
        NullDisk { reads: Cell::new(0), writes: Cell::new(0) }
    }
}
impl BlockDevice for NullDisk {
    type Error = DevErr;
    fn read(&self, _blocks: &mut [Block], _start: BlockIdx) -> Result<(), DevErr> {
        // counted and failed: the harness asserts the counters stay zero, and a
        // failing device ends the (infeasible) continuation of a rejected call early
        self.reads.set(self.reads.get() + 1);
        Err(DevErr)
    }
    fn write(&self, _blocks: &[Block], _start: BlockIdx) -> Result<(), DevErr> {
        self.writes.set(self.writes.get() + 1);
        Err(DevErr)
    }
    fn num_blocks(&self) -> Result<BlockCount, DevErr> {
        Ok(BlockCount(0))
    }
}

// ---------------------------------------------------------------------------
// SymDisk: N-block window [base, base+N) of a device.  Accesses outside the
// window are violations ("device access outside the modelled window": for the
// tiny geometries the window is the whole device plus guard blocks).
// Features: write log (index of every write, in order), fault injection at a
// device-call index (reads scribble the buffer), crash point (writes with log
// index >= crash_at are dropped = the persisted image).
// ---------------------------------------------------------------------------
pub const LOG_CAP: usize = 14;

pub struct SymDisk<const N: usize> {
    pub base: u32,
    pub blocks: RefCell<[Block; N]>,
    pub nreads: Cell<u32>,
    pub nwrites: Cell<u32>,
    pub ncalls: Cell<u32>,
    pub log: RefCell<[u32; LOG_CAP]>,
    /// fail the device call with this index (0-based over reads+writes)
    pub fail_at: Option<u32>,
    pub failed: Cell<bool>,
    /// power cut after `crash_at` writes: the library keeps running on the live image
    /// (`blocks`), `persisted` receives only the writes with log index < crash_at
    pub crash_at: Option<u32>,
    pub persisted: RefCell<[Block; N]>,
    pub oob: Cell<bool>,
}

impl<const N: usize> SymDisk<N> {
    pub fn new(base: u32, blocks: [Block; N]) -> Self {
        SymDisk {
            base,
            persisted: RefCell::new(blocks.clone()),
            blocks: RefCell::new(blocks),
            nreads: Cell::new(0),
            nwrites: Cell::new(0),
            ncalls: Cell::new(0),
            log: RefCell::new([u32::MAX; LOG_CAP]),
            fail_at: None,
            failed: Cell::new(false),
            crash_at: None,
            oob: Cell::new(false),
        }
    }
    pub fn block(&self, idx: u32) -> Block {
        self.blocks.borrow()[(idx - self.base) as usize].clone()
    }
    /// block as a power cut after `crash_at` writes leaves it
    pub fn pblock(&self, idx: u32) -> Block {
        self.persisted.borrow()[(idx - self.base) as usize].clone()
    }
    pub fn byte(&self, idx: u32, off: usize) -> u8 {
        self.blocks.borrow()[(idx - self.base) as usize].contents[off]
    }
    pub fn wrote(&self, idx: u32) -> bool {
        let log = self.log.borrow();
        let mut i = 0;
        let mut hit = false;
        while i < LOG_CAP {
            if (i as u32) < self.nwrites.get() && log[i] == idx {
                hit = true;
            }
            i += 1;
        }
        hit
    }
}

impl<const N: usize> BlockDevice for SymDisk<N> {
    type Error = DevErr;
    fn read(&self, blocks: &mut [Block], start: BlockIdx) -> Result<(), DevErr> {
        assert!(blocks.len() == 1, "device: multi-block read");
        let call = self.ncalls.get();
        self.ncalls.set(call + 1);
        self.nreads.set(self.nreads.get() + 1);
        if self.fail_at == Some(call) {
            self.failed.set(true);
            // buffer scribbled on failure (arbitrary under the solver; a fixed pattern when a
            // harness body is re-run natively as a unit test)
            #[cfg(not(test))]
            {
                blocks[0] = any_block();
            }
            #[cfg(test)]
            {
                blocks[0] = Block { contents: [0xA5; 512] };
            }
            return Err(DevErr);
        }
        if start.0 < self.base || start.0 - self.base >= N as u32 {
            self.oob.set(true);
            assert!(false, "device: read outside the volume window");
            return Err(DevErr);
        }
        blocks[0] = self.blocks.borrow()[(start.0 - self.base) as usize].clone();
        Ok(())
    }
    fn write(&self, blocks: &[Block], start: BlockIdx) -> Result<(), DevErr> {
        assert!(blocks.len() == 1, "device: multi-block write");
        let call = self.ncalls.get();
        self.ncalls.set(call + 1);
        if self.fail_at == Some(call) {
            self.failed.set(true);
            return Err(DevErr);
        }
        if start.0 < self.base || start.0 - self.base >= N as u32 {
            self.oob.set(true);
            assert!(false, "device: write outside the volume window");
            return Err(DevErr);
        }
        let n = self.nwrites.get();
        assert!((n as usize) < LOG_CAP, "device: write log full");
        self.log.borrow_mut()[n as usize] = start.0;
        self.nwrites.set(n + 1);
        self.blocks.borrow_mut()[(start.0 - self.base) as usize] = blocks[0].clone();
        if let Some(k) = self.crash_at {
            if n < k {
                self.persisted.borrow_mut()[(start.0 - self.base) as usize] = blocks[0].clone();
            }
        }
        Ok(())
    }
    fn num_blocks(&self) -> Result<BlockCount, DevErr> {
        Ok(BlockCount(self.base + N as u32))
    }
}

// ---------------------------------------------------------------------------
// little-endian helpers on raw arrays (oracle side; direct indexing only)
// ---------------------------------------------------------------------------
pub fn le16(b: &[u8; 512], off: usize) -> u16 {
    (b[off] as u16) | ((b[off + 1] as u16) << 8)
}
pub fn le32(b: &[u8; 512], off: usize) -> u32 {
    (b[off] as u32) | ((b[off + 1] as u32) << 8) | ((b[off + 2] as u32) << 16) | ((b[off + 3] as u32) << 24)
}
pub fn put16(b: &mut [u8; 512], off: usize, v: u16) {
    b[off] = v as u8;
    b[off + 1] = (v >> 8) as u8;
}
pub fn put32(b: &mut [u8; 512], off: usize, v: u32) {
    b[off] = v as u8;
    b[off + 1] = (v >> 8) as u8;
    b[off + 2] = (v >> 16) as u8;
    b[off + 3] = (v >> 24) as u8;
}

// ---------------------------------------------------------------------------
// Geometry instances (DESIGN.md 4.2).  Built as FatVolume literals exactly
// like the crate's own unit test volume_mgr::tests::partition0 checks them.
// ---------------------------------------------------------------------------
use crate::fat::{Fat16Info, Fat32Info, FatSpecificInfo, FatVolume, VolumeName};
use crate::filesystem::ClusterId;

/// G16a: FAT16, 1 FAT, 1 block/cluster, 4 clusters, partition at block 1.
/// abs blocks: 0 MBR | 1 boot | 2 FAT | 3 root (16 entries) | 4..=7 clusters 2..=5 | 8 guard
pub const G16A_N: usize = 9;
pub fn g16a() -> FatVolume {
    FatVolume {
        lba_start: BlockIdx(1),
        num_blocks: BlockCount(7),
        name: VolumeName { contents: *b"G16A       " },
        blocks_per_cluster: 1,
        first_data_block: BlockCount(3),
        fat_start: BlockCount(1),
        second_fat_start: None,
        free_clusters_count: None,
        next_free_cluster: None,
        cluster_count: 4,
        fat_specific_info: FatSpecificInfo::Fat16(Fat16Info { first_root_dir_block: BlockCount(2), root_entries_count: 16 }),
    }
}
pub const G16A_FAT: u32 = 2;
pub const G16A_ROOT: u32 = 3;
pub const G16A_DATA: u32 = 4;

/// G32a: FAT32, 2 FATs, 1 block/cluster, 4 clusters, partition at block 1, root = cluster 2.
/// abs blocks: 0 MBR | 1 boot | 2 info | 3 FAT#1 | 4 FAT#2 | 5..=8 clusters 2..=5 | 9 guard
pub const G32A_N: usize = 10;
pub fn g32a() -> FatVolume {
    FatVolume {
        lba_start: BlockIdx(1),
        num_blocks: BlockCount(8),
        name: VolumeName { contents: *b"G32A       " },
        blocks_per_cluster: 1,
        first_data_block: BlockCount(4),
        fat_start: BlockCount(2),
        second_fat_start: Some(BlockCount(3)),
        free_clusters_count: None,
        next_free_cluster: None,
        cluster_count: 4,
        fat_specific_info: FatSpecificInfo::Fat32(Fat32Info { first_root_dir_cluster: ClusterId(2), info_location: BlockIdx(2) }),
    }
}
pub const G32A_INFO: u32 = 2;
pub const G32A_FAT1: u32 = 3;
pub const G32A_FAT2: u32 = 4;
pub const G32A_DATA: u32 = 5;
