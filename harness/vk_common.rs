//! Shared harness code (crate::vk_common).
#![allow(dead_code)]
