//! Re-exports from the private module `fat::volume` (crate::fat::vk_fatx).
#![allow(unused_imports)]
pub(crate) use super::volume::vk_fat::{stub_alloc_cluster, GALLOC_N, GALLOC_PREV, GALLOC_QUEUE};
