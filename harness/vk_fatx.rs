//! Re-exports from the private module `fat::volume` (crate::fat::vk_fatx).
#![allow(unused_imports)]
pub(crate) use super::volume::vk_fat::{script_deletes, script_set, stub_delete_directory_entry, stub_find_directory_entry, stub_update_fat, stub_cut_truncate, stub_cut_find, stub_cut_new_entry_ok, cut_find_set, cut_find_calls, stub_cut_write_entry, stub_cut_new_entry, cut_calls, ghost_alloc_calls, ghost_alloc_prev, ghost_fat_get, ghost_fat_set, stub_alloc_cluster, stub_alloc_ghost, stub_next_cluster, GALLOC_N, GALLOC_PREV, GALLOC_QUEUE};
