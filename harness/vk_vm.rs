//! Harnesses that need VolumeManager internals (crate::volume_mgr::vk_vm):
//! C15 mounting, C08 handle tables / limits / lock.
#![allow(dead_code, unused_imports)]
use super::*;
use crate::fat::{FatSpecificInfo, FatVolume};
use crate::vk_common::*;
use crate::{RawVolume, VolumeIdx, VolumeInfo, VolumeType};
use core::cell::Cell;

type MountVm = VolumeManager<MountDisk, Clock, 2, 2, 2>;

fn mount_disk(mbr: Block, boot: Block, info: Block, part: usize) -> MountDisk {
    let lba = le32(&mbr.contents, 446 + 16 * part + 8);
    MountDisk { mbr, boot, info, lba, reads: Cell::new(0), writes: Cell::new(0) }
}

// ---------------------------------------------------------------- C15 (a) ---
// Totality: any three 512-byte sectors, any partition slot.  The assertions
// are Kani's built-in checks (arithmetic overflow, division by zero, index
// out of bounds, explicit panics) plus "mounting never writes".

fn mount_total(part: usize) {
    let dev = mount_disk(any_block(), any_block(), any_block(), part);
    let vm: MountVm = VolumeManager::new_with_limits(dev, Clock(fixed_timestamp()), kani::any());
    let r = vm.open_raw_volume(VolumeIdx(part));
    let data = vm.data.borrow();
    assert!(crate::blockdevice::vk_bd::dev(&data.block_cache).writes.get() == 0, "mount.total: mounting wrote to the device");
    match &r {
        Ok(v) => {
            assert!(data.open_volumes.len() == 1 && data.open_volumes[0].raw_volume == *v, "mount.total: Ok without a table entry");
        }
        Err(_) => assert!(data.open_volumes.is_empty(), "mount.total: Err but a volume was recorded"),
    }
    let is16 = r.is_ok() && matches!(&data.open_volumes[0].volume_type, VolumeType::Fat(f) if matches!(f.fat_specific_info, FatSpecificInfo::Fat16(_)));
    let is32 = r.is_ok() && matches!(&data.open_volumes[0].volume_type, VolumeType::Fat(f) if matches!(f.fat_specific_info, FatSpecificInfo::Fat32(_)));
    kani::cover!(is16, "a FAT16 volume mounts");
    kani::cover!(is32, "a FAT32 volume mounts");
    kani::cover!(matches!(r, Err(Error::FormatError(_))), "a format error is reported");
}

#[kani::proof]
fn c15_mount_total_p0() {
    mount_total(0);
}
#[kani::proof]
fn c15_mount_total_p1() {
    mount_total(1);
}
#[kani::proof]
fn c15_mount_total_p2() {
    mount_total(2);
}
#[kani::proof]
fn c15_mount_total_p3() {
    mount_total(3);
}

/// Volume indices >= 4 never yield a volume and never panic.
#[kani::proof]
fn c15_mount_total_bad_index() {
    let part: usize = kani::any();
    kani::assume(part >= 4);
    let dev = mount_disk(any_block(), any_block(), any_block(), 0);
    let vm: MountVm = VolumeManager::new_with_limits(dev, Clock(fixed_timestamp()), kani::any());
    let r = vm.open_raw_volume(VolumeIdx(part));
    assert!(r.is_err(), "mount.index: volume index >= 4 produced a volume");
    kani::cover!(matches!(r, Err(Error::NoSuchVolume)));
    kani::cover!(matches!(r, Err(Error::FormatError(_))));
}

// ---------------------------------------------------------------- C15 (b) ---
// Correctness: for every MBR entry + boot sector satisfying the FAT
// specification's validity predicate, the volume opens and its layout fields
// equal the specification's formulas (evaluated in u64 here).

struct Expect {
    lba: u32,
    nblocks: u32,
    bpc: u8,
    fat_start: u32,
    second_fat: Option<u32>,
    first_data: u32,
    clusters: u32,
    fat32: bool,
    root_block: u32,
    root_entries: u16,
    root_cluster: u32,
    info_loc: u32,
}

fn valid_layout(mbr: &Block, boot: &Block, info: &Block, part: usize, k: u32) -> Expect {
    let m = &mbr.contents;
    let b = &boot.contents;
    let e = 446 + 16 * part;
    // --- partition table ---
    kani::assume(le16(m, 510) == 0xAA55);
    kani::assume(m[e] & 0x7F == 0);
    kani::assume(matches!(m[e + 4], 0x0B | 0x0C | 0x0E | 0x06 | 0x04));
    let lba = le32(m, e + 8);
    let nblocks = le32(m, e + 12);
    kani::assume(lba >= 1);
    // --- boot sector ---
    kani::assume(le16(b, 510) == 0xAA55);
    kani::assume(le16(b, 11) == 512);
    kani::assume(k <= 7);
    kani::assume(b[13] as u32 == 1u32 << k);
    let reserved = le16(b, 14) as u64;
    kani::assume(reserved >= 1);
    let nfats = b[16] as u64;
    kani::assume(nfats == 1 || nfats == 2);
    let root_entries = le16(b, 17);
    let tot16 = le16(b, 19) as u64;
    let tot32 = le32(b, 32) as u64;
    let total = if tot16 != 0 { tot16 } else { tot32 };
    let fs16 = le16(b, 22) as u64;
    let fs32 = le32(b, 36) as u64;
    let fat_size = if fs16 != 0 { fs16 } else { fs32 };
    kani::assume(fat_size >= 1);
    let root_blocks = (root_entries as u64 * 32 + 511) / 512;
    let non_data = reserved + nfats * fat_size + root_blocks;
    kani::assume(non_data <= total);
    kani::assume(lba as u64 + total <= 0x1_0000_0000);
    let data = total - non_data;
    let clusters = data >> k;
    kani::assume(clusters >= 4085);
    let fat32 = clusters >= 65525;
    // the FAT must be able to hold an entry for every cluster
    let ent = if fat32 { 4 } else { 2 };
    kani::assume(fat_size * 512 >= (clusters + 2) * ent);
    let mut root_cluster = 0;
    let mut info_loc = 0;
    if fat32 {
        // BPB_FATSz16 is 0 on volumes a formatter produces; the specification's FATSz
        // formula (16-bit field if non-zero, else the 32-bit field) is what is checked,
        // so a non-zero 16-bit field is allowed here
        kani::assume(root_entries == 0);
        kani::assume(le16(b, 42) == 0); // FSVer 0.0
        root_cluster = le32(b, 44);
        kani::assume(root_cluster >= 2 && (root_cluster as u64) < clusters + 2);
        let fsinfo = le16(b, 48) as u64;
        kani::assume(fsinfo >= 1 && fsinfo < reserved);
        info_loc = lba + fsinfo as u32;
        let i = &info.contents;
        kani::assume(le32(i, 0) == 0x4161_5252 && le32(i, 484) == 0x6141_7272 && le32(i, 508) == 0xAA55_0000);
    } else {
        kani::assume(root_entries >= 1);
    }
    Expect {
        lba,
        nblocks,
        bpc: b[13],
        fat_start: reserved as u32,
        second_fat: if nfats == 2 { Some((reserved + fat_size) as u32) } else { None },
        first_data: non_data as u32,
        clusters: clusters as u32,
        fat32,
        root_block: (reserved + nfats * fat_size) as u32,
        root_entries,
        root_cluster,
        info_loc,
    }
}

fn mount_correct(part: usize) {
    let mbr = any_block();
    let boot = any_block();
    let info = any_block();
    let k: u32 = kani::any();
    let x = valid_layout(&mbr, &boot, &info, part, k);
    let free = le32(&info.contents, 488);
    let next = le32(&info.contents, 492);
    let label16: [u8; 11] = core::array::from_fn(|i| boot.contents[43 + i]);
    let label32: [u8; 11] = core::array::from_fn(|i| boot.contents[71 + i]);
    let dev = mount_disk(mbr, boot, info, part);
    let vm: MountVm = VolumeManager::new_with_limits(dev, Clock(fixed_timestamp()), kani::any());
    let r = vm.open_raw_volume(VolumeIdx(part));
    assert!(r.is_ok(), "mount.valid: a well-formed partition table + boot sector was rejected");
    let data = vm.data.borrow();
    let vi = &data.open_volumes[0];
    assert!(vi.idx == VolumeIdx(part) && Ok(vi.raw_volume) == r.map_err(|_| ()), "mount.valid: table entry");
    let VolumeType::Fat(f) = &vi.volume_type;
    assert!(f.lba_start.0 == x.lba, "mount.layout: partition start (MBR LBA)");
    assert!(f.num_blocks.0 == x.nblocks, "mount.layout: partition length (MBR)");
    assert!(f.blocks_per_cluster == x.bpc, "mount.layout: blocks per cluster");
    assert!(f.fat_start.0 == x.fat_start, "mount.layout: first FAT = reserved sector count");
    assert!(f.second_fat_start.map(|b| b.0) == x.second_fat, "mount.layout: second FAT = first FAT + FAT size (2-FAT volumes only)");
    assert!(f.first_data_block.0 == x.first_data, "mount.layout: first data sector = reserved + nfats*fatsz + root dir sectors");
    assert!(f.cluster_count == x.clusters, "mount.layout: cluster count = data sectors / sectors per cluster");
    match &f.fat_specific_info {
        FatSpecificInfo::Fat16(i16) => {
            assert!(!x.fat32, "mount.type: >= 65525 clusters must be FAT32");
            assert!(i16.first_root_dir_block.0 == x.root_block, "mount.layout: FAT16 root directory follows the FATs");
            assert!(i16.root_entries_count == x.root_entries, "mount.layout: FAT16 root entry count");
            assert!(f.free_clusters_count.is_none() && f.next_free_cluster.is_none(), "mount.layout: FAT16 has no info record");
            assert!(f.name.contents == label16, "mount.layout: FAT16 label at offset 43");
        }
        FatSpecificInfo::Fat32(i32_) => {
            assert!(x.fat32, "mount.type: < 65525 clusters must be FAT16");
            assert!(i32_.first_root_dir_cluster.0 == x.root_cluster, "mount.layout: FAT32 root cluster");
            assert!(i32_.info_location.0 == x.info_loc, "mount.layout: FAT32 info sector = partition start + FSInfo");
            let want_free = if free == 0xFFFF_FFFF { None } else { Some(free) };
            let want_next = if next == 0xFFFF_FFFF || next < 2 { None } else { Some(next) };
            assert!(f.free_clusters_count == want_free, "mount.info: free-cluster count (0xFFFFFFFF = unknown)");
            assert!(f.next_free_cluster.map(|c| c.0) == want_next, "mount.info: next-free hint (0xFFFFFFFF/0/1 = unknown)");
            assert!(f.name.contents == label32, "mount.layout: FAT32 label at offset 71");
        }
    }
    kani::cover!(x.clusters == 4085, "smallest FAT16");
    kani::cover!(x.clusters == 65524, "largest FAT16");
    kani::cover!(x.clusters == 65525, "smallest FAT32");
    kani::cover!(x.second_fat.is_none() && x.bpc == 128 && !x.fat32);
    kani::cover!(x.root_entries % 16 != 0 && !x.fat32, "root entry count not a multiple of 16");
    kani::cover!(x.fat32 && free == 0xFFFF_FFFF && next == 1);
}

#[kani::proof]
#[kani::unwind(13)]
fn c15_mount_correct_p0() {
    mount_correct(0);
}
#[kani::proof]
#[kani::unwind(13)]
fn c15_mount_correct_p1() {
    mount_correct(1);
}
#[kani::proof]
#[kani::unwind(13)]
fn c15_mount_correct_p2() {
    mount_correct(2);
}
#[kani::proof]
#[kani::unwind(13)]
fn c15_mount_correct_p3() {
    mount_correct(3);
}

// =================================================================== C08 ===
// Handle tables, limits, lock.  One step from an arbitrary table state.
// Table *payloads* are concrete (they are irrelevant to handle management and
// concrete payloads keep the infeasible continuation of a rejected call
// cheap); table lengths, all handle values and the generator are symbolic.
use crate::filesystem::{Handle, HandleGenerator};
use crate::filesystem::vk_fs::next_id as gen_next_id;

const TD: usize = 2; // MAX_DIRS
const TF: usize = 2; // MAX_FILES
const TV: usize = 2; // MAX_VOLUMES
type TabVm = VolumeManager<NullDisk, Clock, TD, TF, TV>;

#[derive(Clone, Copy)]
struct Snap {
    nv: usize,
    nd: usize,
    nf: usize,
    v0: u32,
    v1: u32,
    vi0: usize,
    vi1: usize,
    d0: u32,
    d1: u32,
    dv0: u32,
    dv1: u32,
    dc0: u32,
    dc1: u32,
    f0: u32,
    f1: u32,
    fv0: u32,
    fv1: u32,
    fo0: u32,
    fo1: u32,
}

fn snap(vm: &TabVm) -> Snap {
    let data = vm.data.borrow();
    let mut s = Snap { nv: data.open_volumes.len(), nd: data.open_dirs.len(), nf: data.open_files.len(), v0: 0, v1: 0, vi0: 0, vi1: 0, d0: 0, d1: 0, dv0: 0, dv1: 0, dc0: 0, dc1: 0, f0: 0, f1: 0, fv0: 0, fv1: 0, fo0: 0, fo1: 0 };
    if s.nv > 0 {
        s.v0 = data.open_volumes[0].raw_volume.0 .0;
        s.vi0 = data.open_volumes[0].idx.0;
    }
    if s.nv > 1 {
        s.v1 = data.open_volumes[1].raw_volume.0 .0;
        s.vi1 = data.open_volumes[1].idx.0;
    }
    if s.nd > 0 {
        s.d0 = data.open_dirs[0].raw_directory.0 .0;
        s.dv0 = data.open_dirs[0].raw_volume.0 .0;
        s.dc0 = data.open_dirs[0].cluster.0;
    }
    if s.nd > 1 {
        s.d1 = data.open_dirs[1].raw_directory.0 .0;
        s.dv1 = data.open_dirs[1].raw_volume.0 .0;
        s.dc1 = data.open_dirs[1].cluster.0;
    }
    if s.nf > 0 {
        s.f0 = data.open_files[0].raw_file.0 .0;
        s.fv0 = data.open_files[0].raw_volume.0 .0;
        s.fo0 = data.open_files[0].current_offset;
    }
    if s.nf > 1 {
        s.f1 = data.open_files[1].raw_file.0 .0;
        s.fv1 = data.open_files[1].raw_volume.0 .0;
        s.fo1 = data.open_files[1].current_offset;
    }
    s
}

impl Snap {
    fn has_v(&self, h: u32) -> bool {
        (self.nv > 0 && self.v0 == h) || (self.nv > 1 && self.v1 == h)
    }
    fn has_d(&self, h: u32) -> bool {
        (self.nd > 0 && self.d0 == h) || (self.nd > 1 && self.d1 == h)
    }
    fn has_f(&self, h: u32) -> bool {
        (self.nf > 0 && self.f0 == h) || (self.nf > 1 && self.f1 == h)
    }
    fn open_any(&self, h: u32) -> bool {
        self.has_v(h) || self.has_d(h) || self.has_f(h)
    }
    // equal as tables up to order (close uses swap_remove)
    fn same_dirs(&self, o: &Snap) -> bool {
        self.nd == o.nd
            && (self.nd == 0
                || (self.nd == 1 && self.d0 == o.d0 && self.dv0 == o.dv0 && self.dc0 == o.dc0)
                || (self.nd == 2
                    && ((self.d0 == o.d0 && self.dv0 == o.dv0 && self.dc0 == o.dc0 && self.d1 == o.d1 && self.dv1 == o.dv1 && self.dc1 == o.dc1)
                        || (self.d0 == o.d1 && self.dv0 == o.dv1 && self.dc0 == o.dc1 && self.d1 == o.d0 && self.dv1 == o.dv0 && self.dc1 == o.dc0))))
    }
    fn same_files(&self, o: &Snap) -> bool {
        self.nf == o.nf
            && (self.nf == 0
                || (self.nf == 1 && self.f0 == o.f0 && self.fv0 == o.fv0 && self.fo0 == o.fo0)
                || (self.nf == 2
                    && ((self.f0 == o.f0 && self.fv0 == o.fv0 && self.fo0 == o.fo0 && self.f1 == o.f1 && self.fv1 == o.fv1 && self.fo1 == o.fo1)
                        || (self.f0 == o.f1 && self.fv0 == o.fv1 && self.fo0 == o.fo1 && self.f1 == o.f0 && self.fv1 == o.fv0 && self.fo1 == o.fo0))))
    }
    fn same_vols(&self, o: &Snap) -> bool {
        self.nv == o.nv
            && (self.nv == 0
                || (self.nv == 1 && self.v0 == o.v0 && self.vi0 == o.vi0)
                || (self.nv == 2 && ((self.v0 == o.v0 && self.vi0 == o.vi0 && self.v1 == o.v1 && self.vi1 == o.vi1) || (self.v0 == o.v1 && self.vi0 == o.vi1 && self.v1 == o.v0 && self.vi1 == o.vi0))))
    }
    fn same(&self, o: &Snap) -> bool {
        self.same_vols(o) && self.same_dirs(o) && self.same_files(o)
    }
}

fn any_mode() -> Mode {
    match kani::any::<u8>() % 6 {
        0 => Mode::ReadOnly,
        1 => Mode::ReadWriteAppend,
        2 => Mode::ReadWriteTruncate,
        3 => Mode::ReadWriteCreate,
        4 => Mode::ReadWriteCreateOrTruncate,
        _ => Mode::ReadWriteCreateOrAppend,
    }
}

/// An empty, clean, read-only file (nothing to read, write refused, nothing to flush).
fn idle_file_info(h: u32, vol: u32, k: u32) -> FileInfo {
    FileInfo {
        raw_file: RawFile(Handle(h)),
        raw_volume: RawVolume(Handle(vol)),
        current_cluster: (0, ClusterId(0)),
        current_offset: 0,
        mode: Mode::ReadOnly,
        entry: DirEntry {
            name: ShortFileName { contents: *b"F       DAT" },
            mtime: fixed_timestamp(),
            ctime: fixed_timestamp(),
            attributes: Attributes::create_from_fat(0),
            cluster: ClusterId(0),
            size: 0,
            entry_block: BlockIdx(3),
            entry_offset: 32 * k,
        },
        dirty: false,
    }
}

/// Arbitrary table state for a given *shape* (table lengths).  The shape is
/// concrete inside one call - harnesses branch over all shapes with
/// `shapes!`, so that every heapless::Vec access is at a concrete index (a
/// push at a symbolic length is a symbolic-offset write into the ~1.3 KB
/// VolumeManagerData object and costs millions of clauses).  Handle values are
/// symbolic, pairwise distinct across the three kinds (one generator serves
/// all) and have at least two generations of head-room to the generator's
/// next id.  `refs_open_volume`: open directories/files refer to open volumes
/// (the real invariant) or to a volume handle that is not open (used where
/// only rejection paths are examined, keeps their infeasible tail short).
fn any_tables(nv: usize, nd: usize, nf: usize, refs_open_volume: bool) -> TabVm {
    let vm: TabVm = VolumeManager::new_with_limits(NullDisk::new(), Clock(fixed_timestamp()), 0);
    {
        let mut data = vm.data.borrow_mut();
        let next: u32 = kani::any();
        data.id_generator = HandleGenerator::new(next);
        let h0: u32 = kani::any();
        let h1: u32 = kani::any();
        let h2: u32 = kani::any();
        let h3: u32 = kani::any();
        let h4: u32 = kani::any();
        let h5: u32 = kani::any();
        let mut closed_vol: u32 = kani::any();
        let (mut h0, mut h1, mut h2, mut h3, mut h4, mut h5) = (h0, h1, h2, h3, h4, h5);
        if !refs_open_volume {
            // only rejection paths are examined: concrete table contents (handle
            // values included) let the continuation that follows a (wrongly)
            // accepted handle constant-fold instead of walking FAT chains on
            // symbolic data; the handle under test stays fully symbolic
            h0 = 0x1000_0000;
            h1 = 0x1000_0001;
            h2 = 0x2000_0000;
            h3 = 0x2000_0001;
            h4 = 0x3000_0000;
            h5 = 0x3000_0001;
            closed_vol = 0x4000_0000;
        }
        let n1 = next.wrapping_add(1);
        kani::assume(h0 != next && h1 != next && h2 != next && h3 != next && h4 != next && h5 != next);
        kani::assume(h0 != n1 && h1 != n1 && h2 != n1 && h3 != n1 && h4 != n1 && h5 != n1);
        kani::assume(h0 != h1 && h0 != h2 && h0 != h3 && h0 != h4 && h0 != h5);
        kani::assume(h1 != h2 && h1 != h3 && h1 != h4 && h1 != h5);
        kani::assume(h2 != h3 && h2 != h4 && h2 != h5 && h3 != h4 && h3 != h5 && h4 != h5);
        kani::assume(closed_vol != h0 && closed_vol != h1);
        if nv > 0 {
            let _ = data.open_volumes.push(VolumeInfo { raw_volume: RawVolume(Handle(h0)), idx: VolumeIdx(0), volume_type: VolumeType::Fat(g16a()) });
        }
        if nv > 1 {
            let _ = data.open_volumes.push(VolumeInfo { raw_volume: RawVolume(Handle(h1)), idx: VolumeIdx(2), volume_type: VolumeType::Fat(g16a()) });
        }
        // which volume an object refers to
        let pick = |sel: bool| -> u32 {
            if !refs_open_volume {
                closed_vol
            } else if nv == 0 {
                closed_vol
            } else if sel && nv > 1 {
                h1
            } else {
                h0
            }
        };
        if nd > 0 {
            let _ = data.open_dirs.push(DirectoryInfo { raw_directory: RawDirectory(Handle(h2)), raw_volume: RawVolume(Handle(pick(refs_open_volume && kani::any()))), cluster: ClusterId::ROOT_DIR });
        }
        if nd > 1 {
            let _ = data.open_dirs.push(DirectoryInfo { raw_directory: RawDirectory(Handle(h3)), raw_volume: RawVolume(Handle(pick(refs_open_volume && kani::any()))), cluster: ClusterId(3) });
        }
        if nf > 0 {
            let _ = data.open_files.push(idle_file_info(h4, pick(refs_open_volume && kani::any()), 1));
        }
        if nf > 1 {
            let _ = data.open_files.push(idle_file_info(h5, pick(refs_open_volume && kani::any()), 2));
        }
    }
    vm
}

/// Branch over table shapes; the body runs once per shape with concrete lengths.
macro_rules! shapes {
    ($body:ident, [$(($v:expr, $d:expr, $f:expr)),+ $(,)?]) => {{
        let sel: u8 = kani::any();
        let mut k: u8 = 0;
        let mut ran = false;
        $(
            if !ran && sel == k { $body($v, $d, $f); ran = true; }
            k += 1;
        )+
        kani::assume(ran);
        let _ = k;
    }};
}
macro_rules! all_shapes {
    ($body:ident) => {
        shapes!($body, [(0,0,0),(0,0,1),(0,0,2),(0,1,0),(0,1,1),(0,1,2),(0,2,0),(0,2,1),(0,2,2),
                        (1,0,0),(1,0,1),(1,0,2),(1,1,0),(1,1,1),(1,1,2),(1,2,0),(1,2,1),(1,2,2),
                        (2,0,0),(2,0,1),(2,0,2),(2,1,0),(2,1,1),(2,1,2),(2,2,0),(2,2,1),(2,2,2)])
    };
}
/// the table under test at every length, the other tables at two lengths
macro_rules! vol_shapes {
    ($body:ident) => { shapes!($body, [(0,1,1),(1,0,0),(1,2,1),(1,1,2),(2,0,0),(2,1,1),(2,2,2)]) };
}
macro_rules! dir_shapes {
    ($body:ident) => { shapes!($body, [(1,0,0),(0,1,0),(1,1,1),(2,1,2),(1,2,0),(2,2,2)]) };
}
macro_rules! file_shapes {
    ($body:ident) => { shapes!($body, [(1,0,0),(1,1,1),(2,2,1),(1,0,2),(2,2,2)]) };
}

fn dev_unwritten(vm: &TabVm) -> bool {
    let data = vm.data.borrow();
    let d = crate::blockdevice::vk_bd::dev(&data.block_cache);
    d.writes.get() == 0
}
fn dev_untouched(vm: &TabVm) -> bool {
    let data = vm.data.borrow();
    let d = crate::blockdevice::vk_bd::dev(&data.block_cache);
    d.reads.get() == 0 && d.writes.get() == 0
}

/// HandleGenerator::generate returns the current id and advances by exactly
/// one modulo 2^32: any two handles generated fewer than 2^32 calls apart
/// are therefore distinct.
#[kani::proof]
fn c08_generator_step() {
    let start: u32 = kani::any();
    let mut g = HandleGenerator::new(start);
    let a = g.generate();
    assert!(a.0 == start, "handles.gen: first id is not the offset");
    assert!(gen_next_id(&g) == start.wrapping_add(1), "handles.gen: generator does not advance by one (mod 2^32)");
    let b = g.generate();
    assert!(a != b, "handles.gen: two consecutive handles are equal");
    assert!(gen_next_id(&g) == start.wrapping_add(2), "handles.gen: generator does not advance by one (mod 2^32)");
    kani::cover!(start == u32::MAX);
    kani::cover!(start == 0);
}

/// open_root_dir: fresh handle, limit, bad volume handle, frame.  Two
/// consecutive opens give two distinct fresh handles.
fn open_root_dir_body(nv: usize, nd: usize, nf: usize) {
    let vm = any_tables(nv, nd, nf, true);
    let s0 = snap(&vm);
    let v: u32 = kani::any();
    let r = vm.open_root_dir(RawVolume(Handle(v)));
    let s1 = snap(&vm);
    let full = s0.nd == TD;
    let known = s0.has_v(v);
    match &r {
        Ok(h) => {
            assert!(known, "open_root_dir: succeeded for a volume handle that is not open");
            assert!(!full, "limits: open_root_dir succeeded beyond the directory limit");
            assert!(!s0.open_any(h.0 .0), "handles.fresh: new handle equals an open handle");
            assert!(s1.nd == s0.nd + 1, "open_root_dir: table did not grow by one");
            let (nh, nv_, nc) = if s0.nd == 0 { (s1.d0, s1.dv0, s1.dc0) } else { (s1.d1, s1.dv1, s1.dc1) };
            assert!(nh == h.0 .0 && nv_ == v && nc == ClusterId::ROOT_DIR.0, "open_root_dir: table entry");
            assert!(s1.same_vols(&s0) && s1.same_files(&s0), "open_root_dir: other tables changed");
            assert!(s0.nd == 0 || (s1.d0 == s0.d0 && s1.dv0 == s0.dv0 && s1.dc0 == s0.dc0), "open_root_dir: existing entry changed");
        }
        Err(e) => {
            assert!(s1.same(&s0), "open_root_dir: tables changed by a failed call");
            if full && known {
                assert!(matches!(e, Error::TooManyOpenDirs), "limits: wrong error at the directory limit");
            } else if !full && !known {
                assert!(matches!(e, Error::BadHandle), "open_root_dir: wrong error for a volume handle that is not open");
            } else {
                assert!(full || !known, "open_root_dir: failed although the handle is valid and a slot is free");
            }
        }
    }
    if let Ok(h) = &r {
        if let Ok(h2) = vm.open_root_dir(RawVolume(Handle(v))) {
            assert!(h2 != *h && !s0.open_any(h2.0 .0), "handles.fresh: second new handle equals an open handle");
        }
    }
    assert!(dev_untouched(&vm), "open_root_dir: touched the device");
    kani::cover!(r.is_ok() && s0.nd == 1);
    kani::cover!(full && known);
    kani::cover!(!full && !known);
}
#[kani::proof]
#[kani::unwind(4)]
fn c08_open_root_dir() {
    dir_shapes!(open_root_dir_body);
}

/// open_dir(parent, ".") (the path that needs no directory lookup).
fn open_dir_dot_body(nv: usize, nd: usize, nf: usize) {
    let vm = any_tables(nv, nd, nf, true);
    let s0 = snap(&vm);
    let p: u32 = kani::any();
    let r = vm.open_dir(RawDirectory(Handle(p)), ShortFileName::this_dir());
    let s1 = snap(&vm);
    let full = s0.nd == TD;
    let known = s0.has_d(p);
    match &r {
        Ok(h) => {
            assert!(known && !full, "open_dir: succeeded with a stale parent handle or beyond the limit");
            assert!(!s0.open_any(h.0 .0), "handles.fresh: new handle equals an open handle");
            assert!(s1.nd == s0.nd + 1 && s1.d1 == h.0 .0, "open_dir: table entry");
            assert!(s1.dc1 == s0.dc0 && s1.dv1 == s0.dv0, "open_dir(.): does not designate the parent itself");
        }
        Err(e) => {
            assert!(s1.same(&s0), "open_dir: tables changed by a failed call");
            if full {
                assert!(matches!(e, Error::TooManyOpenDirs), "limits: wrong error at the directory limit");
            } else {
                assert!(!known || s0.nv == 0, "open_dir: failed although parent valid and a slot is free");
                if !known {
                    assert!(matches!(e, Error::BadHandle), "stale: wrong error for a parent handle that is not open");
                }
            }
        }
    }
    assert!(dev_untouched(&vm), "open_dir(.): touched the device");
    kani::cover!(r.is_ok());
    kani::cover!(full && known);
    kani::cover!(!full && !known);
}
#[kani::proof]
#[kani::unwind(13)]
fn c08_open_dir_dot() {
    dir_shapes!(open_dir_dot_body);
}

/// close_dir: frees exactly the slot of the handle; stale handle is rejected.
fn close_dir_body(nv: usize, nd: usize, nf: usize) {
    let vm = any_tables(nv, nd, nf, true);
    let s0 = snap(&vm);
    let h: u32 = kani::any();
    let r = vm.close_dir(RawDirectory(Handle(h)));
    let s1 = snap(&vm);
    if s0.has_d(h) {
        assert!(r.is_ok(), "close_dir: open handle rejected");
        assert!(s1.nd == s0.nd - 1 && !s1.has_d(h), "close_dir: slot not freed");
        if s0.nd == 2 {
            if s0.d0 == h {
                assert!(s1.d0 == s0.d1 && s1.dv0 == s0.dv1 && s1.dc0 == s0.dc1, "close_dir: the other open directory was disturbed");
            } else {
                assert!(s1.d0 == s0.d0 && s1.dv0 == s0.dv0 && s1.dc0 == s0.dc0, "close_dir: the other open directory was disturbed");
            }
        }
        assert!(s1.same_vols(&s0) && s1.same_files(&s0), "close_dir: other tables changed");
    } else {
        assert!(matches!(r, Err(Error::BadHandle)), "stale: close_dir accepted a handle that is not open");
        assert!(s1.same(&s0), "stale: close_dir changed state");
    }
    // a closed handle is rejected afterwards
    let r2 = vm.close_dir(RawDirectory(Handle(h)));
    assert!(matches!(r2, Err(Error::BadHandle)), "stale: handle still accepted after close");
    assert!(dev_untouched(&vm), "close_dir: touched the device");
    kani::cover!(s0.nd == 2 && s0.d1 == h);
    kani::cover!(s0.nd == 2 && !s0.has_d(h));
}
#[kani::proof]
#[kani::unwind(4)]
fn c08_close_dir() {
    dir_shapes!(close_dir_body);
}

/// close_file removes exactly that handle; afterwards the handle is stale.
fn close_file_body(nv: usize, nd: usize, nf: usize) {
    let vm = any_tables(nv, nd, nf, true);
    let s0 = snap(&vm);
    let h: u32 = kani::any();
    let r = vm.close_file(RawFile(Handle(h)));
    let s1 = snap(&vm);
    if s0.has_f(h) {
        assert!(r.is_ok(), "close_file: open clean handle rejected");
        assert!(s1.nf == s0.nf - 1 && !s1.has_f(h), "close_file: slot not freed");
        if s0.nf == 2 {
            if s0.f0 == h {
                assert!(s1.f0 == s0.f1 && s1.fv0 == s0.fv1, "close_file: the other open file was disturbed");
            } else {
                assert!(s1.f0 == s0.f0 && s1.fv0 == s0.fv0, "close_file: the other open file was disturbed");
            }
        }
        assert!(s1.same_vols(&s0) && s1.same_dirs(&s0), "close_file: other tables changed");
    } else {
        assert!(matches!(r, Err(Error::BadHandle)), "stale: close_file accepted a handle that is not open");
        assert!(s1.same(&s0), "stale: close_file changed state");
    }
    assert!(matches!(vm.file_length(RawFile(Handle(h))), Err(Error::BadHandle)), "stale: handle still accepted after close");
    assert!(dev_untouched(&vm), "close_file (clean file): touched the device");
    kani::cover!(s0.nf == 2 && s0.f0 == h);
    kani::cover!(!s0.has_f(h));
}
#[kani::proof]
#[kani::unwind(4)]
fn c08_close_file() {
    file_shapes!(close_file_body);
}

/// Every call that takes a file handle rejects a handle that is not open with
/// BadHandle and has no effect (tables unchanged, device untouched).
macro_rules! stale_file {
    ($name:ident, $body:ident, $vm:ident, $f:ident, $call:expr, $unw:expr, $shapes:tt) => {
        fn $body(nv: usize, nd: usize, nf: usize) {
            let $vm = any_tables(nv, nd, nf, false);
            let s0 = snap(&$vm);
            let h: u32 = kani::any();
            kani::assume(!s0.has_f(h));
            let $f = RawFile(Handle(h));
            let bad = $call;
            assert!(bad, "stale: a file call accepted a handle that is not open");
            assert!(snap(&$vm).same(&s0), "stale: a rejected file call changed state");
            assert!(dev_untouched(&$vm), "stale: a rejected file call touched the device");
            kani::cover!(bad && s0.nd == 1);
            kani::cover!(bad && s0.nv >= 1);
        }
        #[kani::proof]
        #[kani::unwind($unw)]
        fn $name() {
            shapes!($body, $shapes);
        }
    };
}
stale_file!(c08_stale_file_read, stale_file_read_body, vm, f, {
    let mut buf = [0u8; 2];
    let n: usize = kani::any();
    kani::assume(n <= 2);
    matches!(vm.read(f, &mut buf[..n]), Err(Error::BadHandle))
}, 4, [(1, 1, 0), (1, 1, 1)]);
stale_file!(c08_stale_file_write, stale_file_write_body, vm, f, {
    let buf = [0u8; 2];
    let n: usize = kani::any();
    kani::assume(n <= 2);
    matches!(vm.write(f, &buf[..n]), Err(Error::BadHandle))
}, 4, [(1, 1, 0), (2, 2, 0)]);
stale_file!(c08_stale_file_flush_close, stale_file_flush_body, vm, f, {
    if kani::any() { matches!(vm.flush_file(f), Err(Error::BadHandle)) } else { matches!(vm.close_file(f), Err(Error::BadHandle)) }
}, 4, [(1, 1, 0), (1, 1, 1), (1, 1, 2)]);
stale_file!(c08_stale_file_seek_query, stale_file_seek_body, vm, f, {
    let op: u8 = kani::any();
    match op {
        0 => matches!(vm.file_eof(f), Err(Error::BadHandle)),
        1 => matches!(vm.file_seek_from_start(f, kani::any()), Err(Error::BadHandle)),
        2 => matches!(vm.file_seek_from_current(f, kani::any()), Err(Error::BadHandle)),
        3 => matches!(vm.file_seek_from_end(f, kani::any()), Err(Error::BadHandle)),
        4 => matches!(vm.file_length(f), Err(Error::BadHandle)),
        _ => matches!(vm.file_offset(f), Err(Error::BadHandle)),
    }
}, 4, [(1, 1, 0), (1, 1, 1), (1, 1, 2), (2, 0, 2)]);

/// Every call that takes a directory handle rejects a stale one.
macro_rules! stale_dir {
    ($name:ident, $body:ident, $vm:ident, $d:ident, $nm:ident, $call:expr, $unw:expr) => {
        fn $body(nv: usize, nd: usize, nf: usize) {
            let $vm = any_tables(nv, nd, nf, false);
            let s0 = snap(&$vm);
            let h: u32 = kani::any();
            kani::assume(!s0.has_d(h));
            let $d = RawDirectory(Handle(h));
            let $nm = ShortFileName { contents: *b"A       TXT" };
            let bad = $call;
            assert!(bad, "stale: a directory call accepted a handle that is not open");
            assert!(snap(&$vm).same(&s0), "stale: a rejected directory call changed state");
            assert!(dev_untouched(&$vm), "stale: a rejected directory call touched the device");
            kani::cover!(s0.nf == 1);
            kani::cover!(s0.nd == 0);
        }
        #[kani::proof]
        #[kani::unwind($unw)]
        fn $name() {
            // empty directory table (see c08_lookup_functions for non-empty tables); a free
            // slot is left in every table so that limit errors cannot mask the stale-handle error
            shapes!($body, [(1, 0, 0), (2, 0, 1)]);
        }
    };
}
stale_dir!(c08_stale_dir_open_close, stale_dir_open_body, vm, d, name, {
    if kani::any() { matches!(vm.open_dir(d, &name), Err(Error::BadHandle)) } else { matches!(vm.close_dir(d), Err(Error::BadHandle)) }
}, 13);
stale_dir!(c08_stale_dir_find_iterate, stale_dir_find_body, vm, d, name, {
    let op: u8 = kani::any();
    let mut storage = [0u8; 8];
    match op {
        0 => matches!(vm.find_directory_entry(d, &name), Err(Error::BadHandle)),
        1 => matches!(vm.iterate_dir(d, |_| {}), Err(Error::BadHandle)),
        _ => {
            let mut lfn = LfnBuffer::new(&mut storage);
            matches!(vm.iterate_dir_lfn(d, &mut lfn, |_, _| {}), Err(Error::BadHandle))
        }
    }
}, 13);
stale_dir!(c08_stale_dir_open_file, stale_dir_open_file_body, vm, d, name, { matches!(vm.open_file_in_dir(d, &name, any_mode()), Err(Error::BadHandle)) }, 13);
stale_dir!(c08_stale_dir_delete_mkdir, stale_dir_delete_body, vm, d, name, {
    if kani::any() { matches!(vm.delete_file_in_dir(d, &name), Err(Error::BadHandle)) } else { matches!(vm.make_dir_in_dir(d, &name), Err(Error::BadHandle)) }
}, 13);

/// Limits: with the file table full, every open_file_in_dir fails with
/// TooManyOpenFiles; with the dir table full open_dir / make_dir_in_dir fail
/// with TooManyOpenDirs; with the volume table full open_raw_volume fails with
/// TooManyOpenVolumes - before anything is read or written.
fn limits_body(nv: usize, nd: usize, nf: usize) {
    let vm = any_tables(nv, nd, nf, false);
    let s0 = snap(&vm);
    let name = ShortFileName { contents: *b"A       TXT" };
    let d: u32 = kani::any();
    if nf == TF {
        let r = vm.open_file_in_dir(RawDirectory(Handle(d)), &name, any_mode());
        assert!(matches!(r, Err(Error::TooManyOpenFiles)), "limits: open_file_in_dir at the file limit");
    }
    if nd == TD {
        if kani::any() {
            let r = vm.open_dir(RawDirectory(Handle(d)), &name);
            assert!(matches!(r, Err(Error::TooManyOpenDirs)), "limits: open_dir at the directory limit");
        } else {
            let r = vm.make_dir_in_dir(RawDirectory(Handle(d)), &name);
            assert!(matches!(r, Err(Error::TooManyOpenDirs)), "limits: make_dir_in_dir at the directory limit");
        }
    }
    if nv == TV {
        let i: usize = kani::any();
        kani::assume(i >= 4);
        let r = vm.open_raw_volume(VolumeIdx(i));
        assert!(matches!(r, Err(Error::TooManyOpenVolumes)), "limits: open_raw_volume at the volume limit");
    }
    assert!(snap(&vm).same(&s0), "limits: a refused open changed state");
    assert!(dev_untouched(&vm), "limits: a refused open touched the device");
    kani::cover!(nf == TF);
    kani::cover!(nd == TD);
    kani::cover!(nv == TV);
}
#[kani::proof]
#[kani::unwind(13)]
fn c08_limits_full_tables() {
    shapes!(limits_body, [(1, 1, 2), (1, 2, 0), (2, 0, 0), (2, 2, 2)]);
}

/// close_volume: refused while a file or directory of that volume is open;
/// otherwise frees the slot; stale handle rejected.  open_raw_volume refuses
/// an index that is already open.
fn close_volume_body(nv: usize, nd: usize, nf: usize) {
    let vm = any_tables(nv, nd, nf, true);
    let s0 = snap(&vm);
    let v: u32 = kani::any();
    let in_use = (s0.nd > 0 && s0.dv0 == v) || (s0.nd > 1 && s0.dv1 == v) || (s0.nf > 0 && s0.fv0 == v) || (s0.nf > 1 && s0.fv1 == v);
    if nv == 1 && kani::any() {
        // second open of an open index
        let r = vm.open_raw_volume(VolumeIdx(s0.vi0));
        assert!(matches!(r, Err(Error::VolumeAlreadyOpen)), "volumes: the same volume index was opened twice");
        assert!(snap(&vm).same(&s0), "volumes: refused open changed state");
        assert!(dev_untouched(&vm), "volumes: refused open touched the device");
    } else {
        let r = vm.close_volume(RawVolume(Handle(v)));
        let s1 = snap(&vm);
        if in_use {
            assert!(matches!(r, Err(Error::VolumeStillInUse)), "volumes: closed a volume that still has open files or directories");
            assert!(s1.same(&s0), "volumes: refused close changed state");
        } else if s0.has_v(v) {
            assert!(r.is_ok(), "volumes: close of an idle open volume failed");
            assert!(s1.nv == s0.nv - 1 && !s1.has_v(v), "volumes: slot not freed");
            if s0.nv == 2 {
                if s0.v0 == v {
                    assert!(s1.v0 == s0.v1 && s1.vi0 == s0.vi1, "volumes: the other open volume was disturbed");
                } else {
                    assert!(s1.v0 == s0.v0 && s1.vi0 == s0.vi0, "volumes: the other open volume was disturbed");
                }
            }
            assert!(s1.same_dirs(&s0) && s1.same_files(&s0), "volumes: other tables changed");
        } else {
            assert!(matches!(r, Err(Error::BadHandle)), "stale: close_volume accepted a handle that is not open");
            assert!(s1.same(&s0), "stale: close_volume changed state");
        }
        assert!(dev_untouched(&vm), "volumes: FAT16 close touched the device");
        kani::cover!(in_use && s0.has_v(v));
        kani::cover!(!in_use && s0.has_v(v) && s0.nv == 2);
        kani::cover!(!in_use && !s0.has_v(v));
    }
}
#[kani::proof]
#[kani::unwind(4)]
fn c08_close_volume_and_reopen() {
    vol_shapes!(close_volume_body);
}

/// The open-handle query tells the truth.
fn has_open_body(nv: usize, nd: usize, nf: usize) {
    let vm = any_tables(nv, nd, nf, true);
    assert!(vm.has_open_handles() == (nd > 0 || nf > 0), "query: has_open_handles() != (a directory or a file is open)");
    kani::cover!(nd > 0 && nf == 0);
    kani::cover!(nd == 0 && nf > 0);
    kani::cover!(nd == 0 && nf == 0);
}
#[kani::proof]
#[kani::unwind(4)]
fn c08_has_open_handles() {
    all_shapes!(has_open_body);
}



/// The three lookup functions every entry point consults first: Ok(i) iff
/// table[i] carries the handle, BadHandle otherwise (symbolic tables).
fn lookup_body(nv: usize, nd: usize, nf: usize) {
    let vm = any_tables(nv, nd, nf, true);
    let s0 = snap(&vm);
    let h: u32 = kani::any();
    let data = vm.data.borrow();
    match data.get_file_by_id::<DevErr>(RawFile(Handle(h))) {
        Ok(i) => assert!(i < s0.nf && ((i == 0 && s0.f0 == h) || (i == 1 && s0.f1 == h)), "lookup: file index does not carry the handle"),
        Err(e) => assert!(!s0.has_f(h) && matches!(e, Error::BadHandle), "lookup: open file handle rejected / wrong error"),
    }
    match data.get_dir_by_id::<DevErr>(RawDirectory(Handle(h))) {
        Ok(i) => assert!(i < s0.nd && ((i == 0 && s0.d0 == h) || (i == 1 && s0.d1 == h)), "lookup: directory index does not carry the handle"),
        Err(e) => assert!(!s0.has_d(h) && matches!(e, Error::BadHandle), "lookup: open directory handle rejected / wrong error"),
    }
    match data.get_volume_by_id::<DevErr>(RawVolume(Handle(h))) {
        Ok(i) => assert!(i < s0.nv && ((i == 0 && s0.v0 == h) || (i == 1 && s0.v1 == h)), "lookup: volume index does not carry the handle"),
        Err(e) => assert!(!s0.has_v(h) && matches!(e, Error::BadHandle), "lookup: open volume handle rejected / wrong error"),
    }
    kani::cover!(s0.has_f(h) && nf == 2);
    kani::cover!(s0.has_d(h));
    kani::cover!(!s0.open_any(h) && nv == 2 && nd == 2 && nf == 2);
}
#[kani::proof]
#[kani::unwind(4)]
fn c08_lookup_functions() {
    shapes!(lookup_body, [(0, 0, 0), (1, 1, 1), (2, 2, 2), (1, 2, 0), (2, 0, 1)]);
}

// ------------------------------------------------------------------ lock ---
/// Every result-returning public method called from inside an iterate_dir
/// callback fails with LockError and changes nothing.
fn lock_reentrancy(lo: u8, hi: u8) {
    let mut blocks: [Block; G16A_N] = core::array::from_fn(|_| Block::new());
    {
        // one live entry in the root directory, then the end marker
        let r = &mut blocks[G16A_ROOT as usize].contents;
        let name = *b"A       TXT";
        let mut i = 0;
        while i < 11 {
            r[i] = name[i];
            i += 1;
        }
        r[11] = 0x20;
    }
    let vm: VolumeManager<SymDisk<G16A_N>, Clock, 2, 2, 2> = VolumeManager::new_with_limits(SymDisk::new(0, blocks), Clock(fixed_timestamp()), 100);
    {
        let mut data = vm.data.borrow_mut();
        let _ = data.open_volumes.push(VolumeInfo { raw_volume: RawVolume(Handle(1)), idx: VolumeIdx(0), volume_type: VolumeType::Fat(g16a()) });
        let _ = data.open_dirs.push(DirectoryInfo { raw_directory: RawDirectory(Handle(2)), raw_volume: RawVolume(Handle(1)), cluster: ClusterId::ROOT_DIR });
        let _ = data.open_files.push(idle_file_info(3, 1, 1));
    }
    let v = RawVolume(Handle(1));
    let d = RawDirectory(Handle(2));
    let f = RawFile(Handle(3));
    let name = ShortFileName { contents: *b"B       TXT" };
    let mut calls = 0u32;
    let mut all_locked = true;
    let op: u8 = kani::any();
    kani::assume(op >= lo && op <= hi);
    let r = vm.iterate_dir(d, |_de| {
        calls += 1;
        let mut buf = [0u8; 2];
        let n: usize = kani::any();
        kani::assume(n <= 2);
        let mut storage = [0u8; 8];
        let locked = match op {
            0 => matches!(vm.open_raw_volume(VolumeIdx(kani::any())), Err(Error::LockError)),
            1 => matches!(vm.open_root_dir(v), Err(Error::LockError)),
            2 => matches!(vm.open_dir(d, &name), Err(Error::LockError)),
            3 => matches!(vm.close_dir(d), Err(Error::LockError)),
            4 => matches!(vm.close_volume(v), Err(Error::LockError)),
            5 => matches!(vm.find_directory_entry(d, &name), Err(Error::LockError)),
            6 => matches!(vm.iterate_dir(d, |_| {}), Err(Error::LockError)),
            7 => {
                let mut lfn = LfnBuffer::new(&mut storage);
                matches!(vm.iterate_dir_lfn(d, &mut lfn, |_, _| {}), Err(Error::LockError))
            }
            8 => matches!(vm.open_file_in_dir(d, &name, any_mode()), Err(Error::LockError)),
            9 => matches!(vm.delete_file_in_dir(d, &name), Err(Error::LockError)),
            10 => matches!(vm.get_root_volume_label(v), Err(Error::LockError)),
            11 => matches!(vm.read(f, &mut buf[..n]), Err(Error::LockError)),
            12 => matches!(vm.write(f, &buf[..n]), Err(Error::LockError)),
            13 => matches!(vm.close_file(f), Err(Error::LockError)),
            14 => matches!(vm.flush_file(f), Err(Error::LockError)),
            15 => matches!(vm.file_eof(f), Err(Error::LockError)),
            16 => matches!(vm.file_seek_from_start(f, kani::any()), Err(Error::LockError)),
            17 => matches!(vm.file_seek_from_current(f, kani::any()), Err(Error::LockError)),
            18 => matches!(vm.file_seek_from_end(f, kani::any()), Err(Error::LockError)),
            19 => matches!(vm.file_length(f), Err(Error::LockError)),
            20 => matches!(vm.file_offset(f), Err(Error::LockError)),
            _ => matches!(vm.make_dir_in_dir(d, &name), Err(Error::LockError)),
        };
        if !locked {
            all_locked = false;
        }
    });
    assert!(r.is_ok(), "lock: iteration failed");
    assert!(calls == 1, "lock: callback not invoked exactly once for the one live entry");
    assert!(all_locked, "lock: a re-entrant call from the iteration callback did not fail with LockError");
    let data = vm.data.borrow();
    assert!(data.open_volumes.len() == 1 && data.open_dirs.len() == 1 && data.open_files.len() == 1, "lock: a re-entrant call changed the tables");
    assert!(crate::blockdevice::vk_bd::dev(&data.block_cache).nwrites.get() == 0, "lock: a re-entrant call wrote to the device");
    kani::cover!(op == lo);
    kani::cover!(op == hi);
}
#[kani::proof]
#[kani::unwind(18)]
fn c08_lock_open_volume() {
    lock_reentrancy(0, 0);
}
#[kani::proof]
#[kani::unwind(18)]
fn c08_lock_dir_listing() {
    lock_reentrancy(5, 7);
}
#[kani::proof]
#[kani::unwind(18)]
fn c08_lock_dir_mutation() {
    lock_reentrancy(8, 10);
}
#[kani::proof]
#[kani::unwind(18)]
fn c08_lock_make_dir() {
    lock_reentrancy(21, 21);
}
#[kani::proof]
#[kani::unwind(18)]
fn c08_lock_file_queries() {
    lock_reentrancy(15, 20);
}
#[kani::proof]
#[kani::unwind(18)]
fn c08_lock_close_flush() {
    lock_reentrancy(13, 14);
}
#[kani::proof]
#[kani::unwind(18)]
fn c08_lock_read_write() {
    lock_reentrancy(11, 12);
}
#[kani::proof]
#[kani::unwind(18)]
fn c08_lock_dir_volume_handles() {
    lock_reentrancy(1, 4);
}
fn n_is_zero_dummy() -> bool {
    true
}

/// With the open-file table full, open_file_in_dir is refused with
/// TooManyOpenFiles before it looks at the directory: nothing is read, written
/// or changed - one concrete mode per harness (a create and a truncate mode,
/// whose side effects would otherwise reach the medium first).
fn full_table_refusal(mode: Mode) {
    let vm = any_tables(1, 1, 2, true);
    let s0 = snap(&vm);
    let name = ShortFileName { contents: *b"NEW     TXT" };
    let r = vm.open_file_in_dir(RawDirectory(Handle(s0.d0)), &name, mode);
    assert!(r.is_err(), "limits: open_file_in_dir at the file limit must fail");
    // the device of these tables fails every access: only a call that did not
    // get as far as reading the directory owes the specific error
    if dev_untouched(&vm) {
        assert!(matches!(r, Err(Error::TooManyOpenFiles)), "limits: open_file_in_dir at the file limit must fail with TooManyOpenFiles");
    }
    assert!(snap(&vm).same(&s0), "limits: a refused open changed state");
    assert!(dev_unwritten(&vm), "modes.refused: an open refused for lack of a free handle wrote to the medium first");
    kani::cover!(matches!(r, Err(Error::TooManyOpenFiles)));
}
/// Same with the lookup, entry creation, truncation and entry rewrite replaced
/// by stubs that succeed without touching the device: the call must report
/// TooManyOpenFiles, and the three mutating steps must not be reached (a lookup
/// before the refusal is allowed - it changes nothing).  Keeps the query small
/// when the refusal comes too late.
macro_rules! full_table_cut {
    ($($name:ident => $mode:expr, $found:expr;)*) => {$(
        #[kani::proof]
        #[kani::unwind(13)]
        #[kani::stub(crate::fat::FatVolume::find_directory_entry, crate::fat::vk_fatx::stub_cut_find)]
        #[kani::stub(crate::fat::FatVolume::write_new_directory_entry, crate::fat::vk_fatx::stub_cut_new_entry_ok)]
        #[kani::stub(crate::fat::FatVolume::truncate_cluster_chain, crate::fat::vk_fatx::stub_cut_truncate)]
        #[kani::stub(crate::fat::FatVolume::write_entry_to_disk, crate::fat::vk_fatx::stub_cut_write_entry)]
        fn $name() {
            crate::fat::vk_fatx::cut_find_set($found);
            full_table_refusal($mode);
            let (t, n, w) = crate::fat::vk_fatx::cut_calls();
            assert!(n == 0, "modes.refused: directory entry created although no file handle is free");
            assert!(t == 0, "modes.refused: file truncated although no file handle is free");
            assert!(w == 0, "modes.refused: directory entry rewritten although no file handle is free");
        }
    )*};
}
full_table_cut! {
    c07_full_table_refused_create_cut => Mode::ReadWriteCreateOrTruncate, false;
    c07_full_table_refused_truncate_cut => Mode::ReadWriteCreateOrTruncate, true;
    c07_full_table_refused_append_cut => Mode::ReadWriteCreateOrAppend, true;
}
#[kani::proof]
#[kani::unwind(13)]
fn c07_full_table_refused_create() {
    full_table_refusal(Mode::ReadWriteCreateOrTruncate);
}
#[kani::proof]
#[kani::unwind(13)]
fn c07_full_table_refused_truncate() {
    full_table_refusal(Mode::ReadWriteTruncate);
}
