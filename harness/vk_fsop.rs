//! VolumeManager-level file operations (crate::volume_mgr::vk_fsop):
//! C01 (offset -> block translation, read, write), C07 (open modes), C02 flush,
//! C11 faults, C09/C10 crash points.
#![allow(dead_code, unused_imports)]
use super::*;
use crate::blockdevice::vk_bd;
use crate::fat::{FatSpecificInfo, FatVolume};
use crate::filesystem::{Handle, HandleGenerator};
use crate::vk_common::*;
use crate::{RawVolume, VolumeIdx, VolumeInfo, VolumeType};

type Vm = VolumeManager<SymDisk<G16A_N>, Clock, 2, 2, 1>;

fn zero_blocks<const N: usize>() -> [Block; N] {
    core::array::from_fn(|_| Block::new())
}

/// G16a image: FAT with the given concrete entries for clusters 2..=5.
fn image16(fat: [u16; 4]) -> [Block; G16A_N] {
    let mut blocks: [Block; G16A_N] = zero_blocks();
    let f = &mut blocks[G16A_FAT as usize].contents;
    put16(f, 0, 0xFFF8);
    put16(f, 2, 0xFFFF);
    let mut i = 0;
    while i < 4 {
        put16(f, 4 + 2 * i, fat[i]);
        i += 1;
    }
    blocks
}

fn file_info(h: u32, first: u32, size: u32, offset: u32, cur: (u32, u32), mode: Mode, slot: u32) -> FileInfo {
    FileInfo {
        raw_file: RawFile(Handle(h)),
        raw_volume: RawVolume(Handle(1)),
        current_cluster: (cur.0, ClusterId(cur.1)),
        current_offset: offset,
        mode,
        entry: DirEntry {
            name: ShortFileName { contents: *b"F       DAT" },
            mtime: old_timestamp(),
            ctime: old_timestamp(),
            attributes: Attributes::create_from_fat(0x20),
            cluster: ClusterId(first),
            size,
            entry_block: BlockIdx(G16A_ROOT),
            entry_offset: 32 * slot,
        },
        dirty: false,
    }
}

/// timestamp of files that exist before the call (differs from the harness clock)
fn old_timestamp() -> crate::filesystem::Timestamp {
    crate::filesystem::Timestamp { year_since_1970: 40, zero_indexed_month: 0, zero_indexed_day: 0, hours: 1, minutes: 2, seconds: 4 }
}

fn vm_with(blocks: [Block; G16A_N], files: &[FileInfo]) -> Vm {
    let vm: Vm = VolumeManager::new_with_limits(SymDisk::new(0, blocks), Clock(fixed_timestamp()), 100);
    {
        let mut data = vm.data.borrow_mut();
        let _ = data.open_volumes.push(VolumeInfo { raw_volume: RawVolume(Handle(1)), idx: VolumeIdx(0), volume_type: VolumeType::Fat(g16a()) });
        let _ = data.open_dirs.push(DirectoryInfo { raw_directory: RawDirectory(Handle(2)), raw_volume: RawVolume(Handle(1)), cluster: ClusterId::ROOT_DIR });
        let mut i = 0;
        while i < files.len() {
            let _ = data.open_files.push(files[i].clone());
            i += 1;
        }
    }
    vm
}

/// follow a concrete FAT16 chain (entries of clusters 2..=5), return clusters in order
fn chain_of(fat: &[u16; 4], first: u32) -> ([u32; 4], usize) {
    let mut out = [0u32; 4];
    let mut n = 0;
    let mut c = first;
    let mut i = 0;
    while i < 4 {
        if c >= 2 && c < 6 && n == i {
            out[n] = c;
            n += 1;
            let e = fat[(c - 2) as usize];
            c = if e >= 0xFFF8 { 0 } else { e as u32 };
        }
        i += 1;
    }
    (out, n)
}

fn data_block(c: u32) -> u32 {
    G16A_DATA + c - 2
}

/// One read() on a file with a concrete chain / size / offset / cursor cache and
/// symbolic contents: returns min(len, size-offset) bytes equal to the byte-array
/// model (concatenation of the chain's clusters), advances the offset by that
/// amount, keeps the cursor cache consistent, writes nothing, and leaves a
/// second open file untouched.
fn read_case(fat: [u16; 4], first: u32, size: u32, offset: u32, cursor: (u32, u32), len: usize) {
    let mut blocks = image16(fat);
    let mut c = 0;
    while c < 4 {
        blocks[(G16A_DATA + c) as usize] = any_block();
        c += 1;
    }
    let img = [blocks[G16A_DATA as usize].clone(), blocks[G16A_DATA as usize + 1].clone(), blocks[G16A_DATA as usize + 2].clone(), blocks[G16A_DATA as usize + 3].clone()];
    let (chain, n) = chain_of(&fat, first);
    assert!((n as u32) * 512 >= size, "harness instance: chain too short for the size");
    let other = file_info(11, 0, 0, 0, (0, 0), Mode::ReadWriteAppend, 2);
    let vm = vm_with(blocks, &[file_info(10, first, size, offset, cursor, Mode::ReadOnly, 1), other]);
    let f = RawFile(Handle(10));
    let mut buf = [0u8; 600];
    let r = vm.read(f, &mut buf[..len]);
    let want = if (size - offset) as usize > len { len } else { (size - offset) as usize };
    assert!(matches!(r, Ok(k) if k == want), "file.read: byte count != min(buffer length, bytes left)");
    let mut i = 0;
    while i < 600 {
        if i < want {
            let pos = offset as usize + i;
            let m = img[(chain[pos / 512] - 2) as usize].contents[pos % 512];
            assert!(buf[i] == m, "file.read: data differs from the file's byte-array model");
        }
        i += 1;
    }
    assert!(vm.file_offset(f).ok() == Some(offset + want as u32), "file.read: offset not advanced by the bytes returned");
    assert!(vm.file_length(f).ok() == Some(size), "file.read: length changed by a read");
    assert!(vm.file_eof(f).ok() == Some(offset + want as u32 == size), "file.read: end-of-file flag != (offset == length)");
    let data = vm.data.borrow();
    let cc = data.open_files[0].current_cluster;
    assert!(cc.0 % 512 == 0 && (cc.0 / 512) < n as u32 + 1, "file.cursor: cached cluster offset not cluster aligned / beyond the chain");
    if (cc.0 / 512) < n as u32 {
        assert!(cc.1 .0 == chain[(cc.0 / 512) as usize], "file.cursor: cached cluster is not the chain element at the cached offset");
    }
    assert!(data.open_files[1].current_offset == 0 && data.open_files[1].entry.size == 0, "file.isolation: another open file changed");
    assert!(vk_bd::dev(&data.block_cache).nwrites.get() == 0, "file.read: wrote to the device");
    kani::cover!(want == len || want < len);
}

macro_rules! read_h {
    ($name:ident, $fat:expr, $first:expr, $size:expr, $off:expr, $cur:expr, $len:expr) => {
        #[kani::proof]
        #[kani::unwind(602)]
        fn $name() {
            read_case($fat, $first, $size, $off, $cur, $len);
        }
    };
}
// chain 3 -> 5 -> 2 (fragmented, last cluster numbered below the first), 4 free
const F352: [u16; 4] = [0xFFFF, 5, 0, 2];
// chain 5 -> 3 (backwards), 2 = other file, 4 free
const F53: [u16; 4] = [0xFFFF, 0xFFFF, 0, 3];
read_h!(c01_read_start, F352, 3, 1300, 0, (0, 3), 4);
read_h!(c01_read_cross_cluster, F352, 3, 1300, 510, (0, 3), 4);
read_h!(c01_read_cross_two, F352, 3, 1300, 500, (0, 3), 600);
read_h!(c01_read_clipped_eof, F352, 3, 1300, 1290, (1024, 2), 20);
read_h!(c01_read_at_eof, F352, 3, 1300, 1300, (1024, 2), 8);
read_h!(c01_read_backwards_seek, F352, 3, 1300, 100, (1024, 2), 8);
read_h!(c01_read_cursor_behind, F352, 3, 1300, 1100, (0, 3), 8);
read_h!(c01_read_backward_chain, F53, 5, 900, 600, (512, 3), 8);
read_h!(c01_read_block_aligned, F352, 3, 1536, 512, (512, 5), 512);
read_h!(c01_read_empty_buffer, F352, 3, 1300, 77, (0, 3), 0);

/// One write() on a file with a concrete chain / size / offset / cursor cache,
/// symbolic payload, symbolic old contents and a second open file.  Checks the
/// byte-array model (bytes in the written range = payload, every other byte of
/// the file unchanged), length/offset, chain growth (new clusters were free,
/// linked after the tail, end-of-chain marked), the FAT frame, that only FAT and
/// the file's own clusters are written, and that nothing else on the volume
/// (root directory, other clusters) changes.
fn write_case(fat: [u16; 4], first: u32, size: u32, offset: u32, cursor: (u32, u32), len: usize, mode: Mode, ghost: bool) {
    let mut blocks = image16(fat);
    let mut c = 0;
    while c < 4 {
        blocks[(G16A_DATA + c) as usize] = any_block();
        c += 1;
    }
    blocks[G16A_ROOT as usize] = any_block();
    let img = [blocks[G16A_DATA as usize].clone(), blocks[G16A_DATA as usize + 1].clone(), blocks[G16A_DATA as usize + 2].clone(), blocks[G16A_DATA as usize + 3].clone()];
    let root0 = blocks[G16A_ROOT as usize].clone();
    let (chain0, n0) = chain_of(&fat, first);
    let mut nfree = 0u32;
    c = 0;
    while c < 4 {
        if fat[c as usize] == 0 {
            nfree += 1;
        }
        c += 1;
    }
    // abstract allocator: hands out the volume's free clusters, lowest first
    unsafe {
        let mut q = [0u32; 4];
        let mut qi = 0;
        let mut cc = 0;
        while cc < 4 {
            if fat[cc] == 0 {
                q[qi] = cc as u32 + 2;
                qi += 1;
            }
            cc += 1;
        }
        crate::fat::vk_fatx::GALLOC_QUEUE = q;
        crate::fat::vk_fatx::GALLOC_N = 0;
    }
    if ghost {
        // the FAT lives in the ghost table (next_cluster / alloc_cluster stubbed)
        let mut g = [0u32; 8];
        g[0] = 0x0FFF_FFF8;
        g[1] = 0x0FFF_FFFF;
        let mut cc = 0;
        while cc < 4 {
            g[2 + cc] = if fat[cc] >= 0xFFF8 { 0x0FFF_FFFF } else { fat[cc] as u32 };
            cc += 1;
        }
        crate::fat::vk_fatx::ghost_fat_set(g);
    }
    let other = file_info(11, 0, 0, 0, (0, 0), Mode::ReadWriteAppend, 2);
    let vm = vm_with(blocks, &[file_info(10, first, size, offset, cursor, mode, 1), other]);
    let f = RawFile(Handle(10));
    let payload: [u8; 600] = kani::any();
    let r = vm.write(f, &payload[..len]);
    // vacuity witness for every instance (placed before the read-only early return)
    kani::cover!(r.is_ok() || r.is_err(), "write returned");
    let data = vm.data.borrow();
    let dev = vk_bd::dev(&data.block_cache);
    let fi = &data.open_files[0];
    if mode == Mode::ReadOnly {
        assert!(matches!(r, Err(Error::ReadOnly)), "modes.readonly: write on a read-only handle must fail with ReadOnly");
        assert!(dev.nwrites.get() == 0 && fi.entry.size == size && fi.current_offset == offset, "modes.readonly: refused write changed something");
        return;
    }
    // how many clusters the write needs in total, and whether the volume can supply them
    let end = offset as usize + len;
    let need = (end + 511) / 512;
    let have = n0;
    let grow = if need > have { need - have } else { 0 };
    let fits = grow as u32 <= nfree;
    let fatpost = dev.block(G16A_FAT);
    let mut fat1 = [0u16; 4];
    let g1 = crate::fat::vk_fatx::ghost_fat_get();
    c = 0;
    while c < 4 {
        fat1[c as usize] = if ghost {
            if g1[2 + c as usize] >= 0x0FFF_FFF8 { 0xFFFF } else { g1[2 + c as usize] as u16 }
        } else {
            le16(&fatpost.contents, 4 + 2 * c as usize)
        };
        c += 1;
    }
    if ghost && grow > 0 && have > 0 {
        // the allocator was asked to link the new cluster behind the chain's tail
        assert!(crate::fat::vk_fatx::ghost_alloc_prev(0) == chain0[have - 1], "file.chain: new cluster not linked behind the last cluster of the chain");
    }
    let first1 = fi.entry.cluster.0;
    let (chain1, n1) = chain_of(&fat1, first1);
    // ---- result / length / offset ----
    let written: usize;
    if fits {
        assert!(r.is_ok(), "file.write: a write that fits failed");
        written = len;
    } else {
        assert!(matches!(r, Err(Error::DiskFull)), "space.full: a write that does not fit must report DiskFull");
        written = (have + nfree as usize) * 512 - offset as usize;
    }
    let new_end = offset as usize + written;
    let size1 = if new_end > size as usize { new_end as u32 } else { size };
    assert!(fi.entry.size == size1, "file.write: length != max(old length, end of the bytes written)");
    assert!(fi.current_offset == new_end as u32, "file.write: offset not advanced by the bytes written");
    // ---- chain: expected = old chain followed by the lowest free clusters (concrete) ----
    let mut exp_chain = chain0;
    let mut exp_n = n0;
    {
        let target = if need > have { if fits { need } else { have + nfree as usize } } else { have };
        let mut cc = 0;
        while cc < 4 {
            if fat[cc] == 0 && exp_n < target && exp_n < 4 && len > 0 {
                exp_chain[exp_n] = cc as u32 + 2;
                exp_n += 1;
            }
            cc += 1;
        }
    }
    if have > 0 {
        assert!(first1 == first, "file.chain: first cluster changed");
    }
    assert!(n1 == exp_n, "file.chain: chain length != old chain + clusters needed (from free clusters)");
    let mut i = 0;
    while i < 4 {
        if i < exp_n {
            assert!(chain1[i] == exp_chain[i], "file.chain: chain is not the old chain followed by previously free clusters, linked in order");
        }
        i += 1;
    }
    assert!(exp_n * 512 >= size1 as usize, "file.chain: chain too short for the recorded length");
    // from here on the (now established) concrete chain is used
    let chain1 = exp_chain;
    let n1 = exp_n;
    // ---- FAT frame: entries of clusters not in the new chain unchanged ----
    c = 0;
    while c < 4 {
        let mut in_new = false;
        i = 0;
        while i < 4 {
            if i < n1 && chain1[i] == c + 2 {
                in_new = true;
            }
            i += 1;
        }
        if !in_new {
            assert!(fat1[c as usize] == fat[c as usize], "fat.frame: write changed the FAT entry of a cluster outside the file");
        }
        c += 1;
    }
    // ---- contents: byte-array model ----
    // the file's clusters after the call, fetched once per chain position
    let pb: [Block; 4] = [
        if n1 > 0 { dev.block(data_block(chain1[0])) } else { Block::new() },
        if n1 > 1 { dev.block(data_block(chain1[1])) } else { Block::new() },
        if n1 > 2 { dev.block(data_block(chain1[2])) } else { Block::new() },
        if n1 > 3 { dev.block(data_block(chain1[3])) } else { Block::new() },
    ];
    let mut pos = 0;
    while pos < 2048 {
        if pos < size1 as usize && pos / 512 < n1 {
            let got = pb[pos / 512].contents[pos % 512];
            if pos >= offset as usize && pos < new_end {
                assert!(got == payload[pos - offset as usize], "file.write: bytes in the written range != payload");
            } else if pos < size as usize {
                let old = img[(chain0[pos / 512] - 2) as usize].contents[pos % 512];
                assert!(got == old, "file.frame: write changed file bytes outside the written range");
            }
        }
        pos += 1;
    }
    // ---- rest of the volume ----
    c = 0;
    while c < 4 {
        let mut in_new = false;
        i = 0;
        while i < 4 {
            if i < n1 && chain1[i] == c + 2 {
                in_new = true;
            }
            i += 1;
        }
        if !in_new {
            assert!(!dev.wrote(G16A_DATA + c), "write.region: wrote a cluster that does not belong to the file");
        }
        c += 1;
    }
    assert!(!dev.wrote(G16A_ROOT) && !dev.wrote(0) && !dev.wrote(1) && !dev.wrote(8), "write.region: file write touched directory / boot / MBR / block past the volume");
    let _ = root0;
    assert!(data.open_files[1].current_offset == 0 && data.open_files[1].entry.size == 0 && data.open_files[1].entry.cluster.0 == 0, "file.isolation: another open file changed");
    assert!(fi.dirty || len == 0, "file.write: file not marked dirty after a write (flush would skip the directory entry)");
    if r.is_ok() {
        assert!(fi.entry.mtime == fixed_timestamp(), "file.times: modification time != clock value at the write");
        assert!(fi.entry.ctime == old_timestamp(), "file.times: creation time changed by a write");
        assert!(fi.entry.attributes.is_archive(), "file.times: archive attribute not set by a write");
    }
    // cursor cache
    let cc = fi.current_cluster;
    assert!(cc.0 % 512 == 0, "file.cursor: cached cluster offset not cluster aligned");
    if ((cc.0 / 512) as usize) < n1 {
        assert!(cc.1 .0 == chain1[(cc.0 / 512) as usize], "file.cursor: cached cluster is not the chain element at the cached offset");
    }
}

macro_rules! write_h {
    ($name:ident, $fat:expr, $first:expr, $size:expr, $off:expr, $cur:expr, $len:expr, $mode:expr) => {
        #[kani::proof]
        #[kani::unwind(2050)]
        #[kani::stub(crate::fat::FatVolume::alloc_cluster, crate::fat::vk_fatx::stub_alloc_cluster)]
        fn $name() {
            write_case($fat, $first, $size, $off, $cur, $len, $mode, false);
        }
    };
}
// 3 -> 5 (2 clusters), 2 and 4 free
const F35: [u16; 4] = [0, 5, 0, 0xFFFF];
// 3 -> 5, 2 used by someone else, 4 free (one free cluster)
const F35_ONE: [u16; 4] = [0xFFFF, 5, 0, 0xFFFF];
// 3 -> 5, no free cluster
const F35_FULL: [u16; 4] = [0xFFFF, 5, 0xFFFF, 0xFFFF];
// nothing allocated to this file, 2 used, 3,4,5 free
const FNONE: [u16; 4] = [0xFFFF, 0, 0, 0];
write_h!(c01_write_middle, F352, 3, 1300, 100, (0, 3), 8, Mode::ReadWriteAppend);
write_h!(c01_write_block_start_partial, F352, 3, 1300, 512, (512, 5), 100, Mode::ReadWriteAppend);
write_h!(c01_write_cross_end_midblock, F352, 3, 1300, 300, (0, 3), 600, Mode::ReadWriteAppend);
write_h!(c01_write_full_block, F352, 3, 1536, 512, (0, 3), 512, Mode::ReadWriteTruncate);
// crosses a block boundary and ends mid-way through the file's LAST block, before EOF
write_h!(c01_write_cross_end_in_last_block, F35, 3, 1000, 300, (0, 3), 500, Mode::ReadWriteAppend);
write_h!(c01_write_extend_one, F35, 3, 1024, 1024, (512, 5), 10, Mode::ReadWriteAppend);
write_h!(c01_write_extend_stale_cursor, F352, 3, 1536, 1536, (0, 3), 4, Mode::ReadWriteAppend);
write_h!(c01_write_extend_within_cluster, F35, 3, 700, 700, (512, 5), 100, Mode::ReadWriteAppend);
write_h!(c01_write_first_cluster, FNONE, 0, 0, 0, (0, 0), 5, Mode::ReadWriteCreate);
write_h!(c01_write_extend_two, F35, 3, 1024, 1000, (512, 5), 600, Mode::ReadWriteAppend);
write_h!(c05_write_last_free_cluster, F35_ONE, 3, 1024, 1024, (512, 5), 512, Mode::ReadWriteAppend);
write_h!(c05_write_disk_full_partial, F35_ONE, 3, 1024, 1000, (512, 5), 600, Mode::ReadWriteAppend);
write_h!(c05_write_disk_full_none, F35_FULL, 3, 1024, 1024, (512, 5), 4, Mode::ReadWriteAppend);
write_h!(c07_write_readonly_refused, F352, 3, 1300, 0, (0, 3), 4, Mode::ReadOnly);
write_h!(c01_write_backward_chain, F53, 5, 900, 600, (512, 3), 8, Mode::ReadWriteAppend);
write_h!(c01_write_empty_buffer, F352, 3, 1300, 77, (0, 3), 0, Mode::ReadWriteAppend);

// ================================================================== C07 ===
// Open modes.  Root directory (concrete layout, symbolic sizes/times):
//   slot 0  A.TXT   file, archive, cluster 3 (chain 3 -> 5), size 600
//   slot 1  R.TXT   file, read-only attribute, cluster 2, size 10
//   slot 2  D       directory, cluster 4
//   slot 3  O.TXT   file, cluster 0, size 0  -- already open (handle 11)
//   slot 4..        end of directory
fn put_slot(root: &mut [u8; 512], slot: usize, name: &[u8; 11], attr: u8, cluster: u16, size: u32) {
    let o = 32 * slot;
    let mut i = 0;
    while i < 11 {
        root[o + i] = name[i];
        i += 1;
    }
    root[o + 11] = attr;
    put16(root, o + 26, cluster);
    put32(root, o + 28, size);
    // timestamps: any valid-looking words
    put16(root, o + 14, 0x6000);
    put16(root, o + 16, 0x5821);
    put16(root, o + 22, 0x6000);
    put16(root, o + 24, 0x5821);
}
const N_A: [u8; 11] = *b"A       TXT";
const N_R: [u8; 11] = *b"R       TXT";
const N_D: [u8; 11] = *b"D          ";
const N_O: [u8; 11] = *b"O       TXT";
const N_M: [u8; 11] = *b"M       TXT";

fn mode_of(i: u8) -> Mode {
    match i {
        0 => Mode::ReadOnly,
        1 => Mode::ReadWriteAppend,
        2 => Mode::ReadWriteTruncate,
        3 => Mode::ReadWriteCreate,
        4 => Mode::ReadWriteCreateOrTruncate,
        _ => Mode::ReadWriteCreateOrAppend,
    }
}

/// open_file_in_dir(root, name, mode) for one concrete (name, mode) pair.
/// target: 0 = A (existing file), 1 = R (read-only file), 2 = D (directory),
/// 3 = O (already open), 4 = M (missing).
fn open_case(target: u8, m: u8) {
    let mut blocks = image16([0xFFFF, 5, 0xFFFF, 0xFFFF]);
    {
        let r = &mut blocks[G16A_ROOT as usize].contents;
        put_slot(r, 0, &N_A, 0x20, 3, 600);
        put_slot(r, 1, &N_R, 0x21, 2, 10);
        put_slot(r, 2, &N_D, 0x10, 4, 0);
        put_slot(r, 3, &N_O, 0x20, 0, 0);
    }
    let root0 = blocks[G16A_ROOT as usize].clone();
    let fat0 = blocks[G16A_FAT as usize].clone();
    let open = file_info(11, 0, 0, 0, (0, 0), Mode::ReadWriteAppend, 3);
    let vm = vm_with(blocks, &[open]);
    let name = match target {
        0 => N_A,
        1 => N_R,
        2 => N_D,
        3 => N_O,
        _ => N_M,
    };
    let mode = mode_of(m);
    let r = vm.open_file_in_dir(RawDirectory(Handle(2)), ShortFileName { contents: name }, mode);
    let data = vm.data.borrow();
    let dev = vk_bd::dev(&data.block_cache);
    let creating = m >= 3;
    let refused_clean = |what: &'static str| {
        assert!(dev.nwrites.get() == 0, "modes.refused: a refused open wrote to the medium");
        assert!(data.open_files.len() == 1, "modes.refused: a refused open changed the open-file table");
        let _ = what;
    };
    match target {
        4 => {
            if creating {
                assert!(r.is_ok(), "modes.create: create mode on a missing name must create the file");
                let fi = &data.open_files[1];
                assert!(fi.entry.size == 0 && fi.current_offset == 0 && fi.entry.cluster.0 == 0, "modes.create: new file not empty");
                assert!(fi.entry.entry_block.0 == G16A_ROOT && fi.entry.entry_offset == 32 * 4, "modes.create: entry not in the first free slot");
                assert!(fi.mode != Mode::ReadOnly, "modes.create: created file handle is read-only");
                let post = dev.block(G16A_ROOT);
                let mut i = 0;
                while i < 11 {
                    assert!(post.contents[128 + i] == name[i], "modes.create: name not stored");
                    i += 1;
                }
                let mut p = 0;
                while p < 128 {
                    assert!(post.contents[p] == root0.contents[p], "dir.frame: create changed other directory entries");
                    p += 1;
                }
                assert!(fi.raw_file.0 .0 != 11, "handles.fresh: new file handle equals an open handle");
            } else {
                assert!(matches!(r, Err(Error::NotFound)), "modes.missing: non-create mode on a missing name must report NotFound");
                refused_clean("missing");
            }
        }
        3 => {
            assert!(matches!(r, Err(Error::FileAlreadyOpen)), "modes.open_twice: an open file must not be opened again");
            refused_clean("open twice");
        }
        2 => {
            if m == 3 {
                assert!(matches!(r, Err(Error::FileAlreadyExists)), "modes.create_existing: ReadWriteCreate on an existing name must fail");
            } else {
                assert!(matches!(r, Err(Error::OpenedDirAsFile)), "modes.dir_as_file: a directory must not open as a file");
            }
            refused_clean("dir");
        }
        1 => {
            if m == 0 {
                assert!(r.is_ok(), "modes.readonly_attr: read-only file must open ReadOnly");
                assert!(data.open_files[1].mode == Mode::ReadOnly && data.open_files[1].current_offset == 0, "modes.readonly_attr: handle");
                assert!(dev.nwrites.get() == 0, "modes.readonly: ReadOnly open wrote to the medium");
            } else if m == 3 {
                assert!(matches!(r, Err(Error::FileAlreadyExists)), "modes.create_existing: ReadWriteCreate on an existing name must fail");
                refused_clean("create existing");
            } else {
                assert!(matches!(r, Err(Error::ReadOnly)), "modes.readonly_attr: a file with the read-only attribute must not open for writing");
                refused_clean("read-only attr");
            }
        }
        _ => {
            let truncating = m == 2 || m == 4;
            let appending = m == 1 || m == 5;
            if m == 3 {
                assert!(matches!(r, Err(Error::FileAlreadyExists)), "modes.create_existing: ReadWriteCreate on an existing name must fail");
                refused_clean("create existing");
            } else {
                assert!(r.is_ok(), "modes.existing: opening an existing file failed");
                let fi = &data.open_files[1];
                assert!(fi.entry.entry_offset == 0 && fi.entry.cluster.0 == 3, "modes.existing: handle does not designate the entry");
                if truncating {
                    assert!(fi.entry.size == 0 && fi.current_offset == 0, "modes.truncate: file not emptied");
                    let fatp = dev.block(G16A_FAT);
                    assert!(le16(&fatp.contents, 6) >= 0xFFF8 && le16(&fatp.contents, 10) == 0, "modes.truncate: chain not cut after the first cluster / tail not freed");
                    assert!(le16(&fatp.contents, 4) == le16(&fat0.contents, 4) && le16(&fatp.contents, 8) == le16(&fat0.contents, 8), "fat.frame: truncate changed another file's FAT entries");
                    let post = dev.block(G16A_ROOT);
                    assert!(le32(&post.contents, 28) == 0, "modes.truncate: directory entry size not zero on the medium");
                    let mut p = 32;
                    while p < 160 {
                        assert!(post.contents[p] == root0.contents[p], "dir.frame: truncate changed other directory entries");
                        p += 1;
                    }
                } else {
                    assert!(fi.entry.size == 600, "modes.existing: size");
                    assert!(fi.current_offset == if appending { 600 } else { 0 }, "modes.append: append must start at the end, read-only at the start");
                    assert!((fi.mode == Mode::ReadOnly) == (m == 0), "modes.existing: handle mode");
                    assert!(dev.nwrites.get() == 0, "modes.existing: open without truncation wrote to the medium");
                }
                assert!(fi.raw_file.0 .0 != 11, "handles.fresh: new file handle equals an open handle");
            }
        }
    }
    kani::cover!(r.is_ok() || r.is_err());
}

// one harness per (target, mode) pair
#[kani::proof]
#[kani::unwind(130)]
fn c07_open_a_ro() {
    open_case(0, 0);
}
#[kani::proof]
#[kani::unwind(130)]
fn c07_open_a_append() {
    open_case(0, 1);
}
#[kani::proof]
#[kani::unwind(130)]
fn c07_open_a_trunc() {
    open_case(0, 2);
}
#[kani::proof]
#[kani::unwind(130)]
fn c07_open_a_create() {
    open_case(0, 3);
}
#[kani::proof]
#[kani::unwind(130)]
fn c07_open_a_create_or_trunc() {
    open_case(0, 4);
}
#[kani::proof]
#[kani::unwind(130)]
fn c07_open_a_create_or_append() {
    open_case(0, 5);
}
#[kani::proof]
#[kani::unwind(130)]
fn c07_open_r_ro() {
    open_case(1, 0);
}
#[kani::proof]
#[kani::unwind(130)]
fn c07_open_r_append() {
    open_case(1, 1);
}
#[kani::proof]
#[kani::unwind(130)]
fn c07_open_r_trunc() {
    open_case(1, 2);
}
#[kani::proof]
#[kani::unwind(130)]
fn c07_open_r_create() {
    open_case(1, 3);
}
#[kani::proof]
#[kani::unwind(130)]
fn c07_open_r_create_or_trunc() {
    open_case(1, 4);
}
#[kani::proof]
#[kani::unwind(130)]
fn c07_open_r_create_or_append() {
    open_case(1, 5);
}
// Read-only-attribute target with the truncating / creating sub-operations cut
// out (counting stubs): the refusal has to come before either is called.
macro_rules! open_r_cut {
    ($($name:ident => $m:expr;)*) => {$(
        #[kani::proof]
        #[kani::unwind(130)]
        #[kani::stub(crate::fat::FatVolume::truncate_cluster_chain, crate::fat::vk_fatx::stub_cut_truncate)]
        #[kani::stub(crate::fat::FatVolume::write_new_directory_entry, crate::fat::vk_fatx::stub_cut_new_entry)]
        #[kani::stub(crate::fat::FatVolume::write_entry_to_disk, crate::fat::vk_fatx::stub_cut_write_entry)]
        fn $name() {
            open_case(1, $m);
            let (t, n, w) = crate::fat::vk_fatx::cut_calls();
            assert!(w == 0, "modes.readonly_attr: open of a read-only file for writing rewrote its directory entry");
            assert!(t == 0, "modes.readonly_attr: open of a read-only file for writing reached the truncation");
            assert!(n == 0, "modes.readonly_attr: open of an existing read-only file reached entry creation");
        }
    )*};
}
open_r_cut! {
    c07_open_r_trunc_cut => 2;
    c07_open_r_create_or_trunc_cut => 4;
    c07_open_r_create_or_append_cut => 5;
}
#[kani::proof]
#[kani::unwind(130)]
fn c07_open_d_ro() {
    open_case(2, 0);
}
#[kani::proof]
#[kani::unwind(130)]
fn c07_open_d_append() {
    open_case(2, 1);
}
#[kani::proof]
#[kani::unwind(130)]
fn c07_open_d_trunc() {
    open_case(2, 2);
}
#[kani::proof]
#[kani::unwind(130)]
fn c07_open_d_create() {
    open_case(2, 3);
}
#[kani::proof]
#[kani::unwind(130)]
fn c07_open_d_create_or_trunc() {
    open_case(2, 4);
}
#[kani::proof]
#[kani::unwind(130)]
fn c07_open_d_create_or_append() {
    open_case(2, 5);
}
#[kani::proof]
#[kani::unwind(130)]
fn c07_open_o_ro() {
    open_case(3, 0);
}
#[kani::proof]
#[kani::unwind(130)]
fn c07_open_o_append() {
    open_case(3, 1);
}
#[kani::proof]
#[kani::unwind(130)]
fn c07_open_o_trunc() {
    open_case(3, 2);
}
#[kani::proof]
#[kani::unwind(130)]
fn c07_open_o_create() {
    open_case(3, 3);
}
#[kani::proof]
#[kani::unwind(130)]
fn c07_open_o_create_or_trunc() {
    open_case(3, 4);
}
#[kani::proof]
#[kani::unwind(130)]
fn c07_open_o_create_or_append() {
    open_case(3, 5);
}
#[kani::proof]
#[kani::unwind(130)]
fn c07_open_m_ro() {
    open_case(4, 0);
}
#[kani::proof]
#[kani::unwind(130)]
fn c07_open_m_append() {
    open_case(4, 1);
}
#[kani::proof]
#[kani::unwind(130)]
fn c07_open_m_trunc() {
    open_case(4, 2);
}
#[kani::proof]
#[kani::unwind(130)]
fn c07_open_m_create() {
    open_case(4, 3);
}
#[kani::proof]
#[kani::unwind(130)]
fn c07_open_m_create_or_trunc() {
    open_case(4, 4);
}
#[kani::proof]
#[kani::unwind(130)]
fn c07_open_m_create_or_append() {
    open_case(4, 5);
}


// ===================================================== find_data_on_disk ===
/// Offset -> block translation with the cursor cache, on a concrete chain:
/// success returns the block of the chain element offset/512 and the byte
/// position in it; running off the end of the chain reports EndOfFile *and
/// leaves the cursor at the chain's last cluster* - write() links the newly
/// allocated cluster behind that cursor.
fn find_data_case(fat: [u16; 4], first: u32, cursor: (u32, u32), desired: u32) {
    let blocks = image16(fat);
    let (chain, n) = chain_of(&fat, first);
    let vm = vm_with(blocks, &[]);
    let mut data = vm.data.borrow_mut();
    let mut start = (cursor.0, ClusterId(cursor.1));
    let r = data.find_data_on_disk(0, &mut start, ClusterId(first), desired);
    let idx = (desired / 512) as usize;
    if idx < n {
        match r {
            Ok((blk, off, avail)) => {
                assert!(blk.0 == data_block(chain[idx]), "file.locate: block is not the chain element offset/cluster_size");
                assert!(off == (desired % 512) as usize && avail == 512 - off, "file.locate: byte position / bytes available in the block");
            }
            Err(_) => assert!(false, "file.locate: failed inside the chain"),
        }
        assert!(start.0 == 512 * idx as u32 && start.1 .0 == chain[idx], "file.cursor: cursor not at the located cluster");
    } else {
        assert!(matches!(r, Err(Error::EndOfFile)), "file.locate: running off the chain must report EndOfFile");
        assert!(start.1 .0 == chain[n - 1] && start.0 == 512 * (n as u32 - 1), "file.cursor: after EndOfFile the cursor must rest on the chain's last cluster (write links the new cluster there)");
    }
    assert!(vk_bd::dev(&data.block_cache).nwrites.get() == 0, "file.locate: wrote to the device");
    kani::cover!(r.is_ok() || r.is_err());
}
macro_rules! find_data_h {
    ($name:ident, $fat:expr, $first:expr, $cur:expr, $des:expr) => {
        #[kani::proof]
        #[kani::unwind(12)]
        fn $name() {
            find_data_case($fat, $first, $cur, $des);
        }
    };
}
find_data_h!(c01_locate_first, F352, 3, (0, 3), 17);
find_data_h!(c01_locate_third_from_start, F352, 3, (0, 3), 1100);
find_data_h!(c01_locate_backwards, F352, 3, (1024, 2), 600);
find_data_h!(c01_locate_from_cache, F352, 3, (512, 5), 1500);
find_data_h!(c01_locate_eof_from_start, F352, 3, (0, 3), 1536);
find_data_h!(c01_locate_eof_from_cache, F352, 3, (512, 5), 1536);
find_data_h!(c01_locate_eof_backward_chain, F53, 5, (0, 5), 1024);

// ------------------------------------------------------ delete_file_in_dir ---
/// target: 0 = A (closed file) -> deleted; 2 = D (directory) -> DeleteDirAsFile;
/// 3 = O (open file whose in-memory entry already differs from the medium:
/// first cluster allocated but not yet flushed) -> FileAlreadyOpen; 4 = missing.
fn delete_case(target: u8) {
    let mut blocks = image16([0xFFFF, 5, 0xFFFF, 0xFFFF]);
    {
        let r = &mut blocks[G16A_ROOT as usize].contents;
        put_slot(r, 0, &N_A, 0x20, 3, 600);
        put_slot(r, 1, &N_R, 0x21, 2, 10);
        put_slot(r, 2, &N_D, 0x10, 4, 0);
        put_slot(r, 3, &N_O, 0x20, 0, 0);
    }
    let root0 = blocks[G16A_ROOT as usize].clone();
    // the open file has been written to since it was opened: cluster and size differ from the medium
    let mut open = file_info(11, 4, 77, 77, (0, 4), Mode::ReadWriteAppend, 3);
    open.dirty = true;
    let vm = vm_with(blocks, &[open]);
    let name = match target {
        0 => N_A,
        2 => N_D,
        3 => N_O,
        _ => N_M,
    };
    let r = vm.delete_file_in_dir(RawDirectory(Handle(2)), ShortFileName { contents: name });
    let data = vm.data.borrow();
    let dev = vk_bd::dev(&data.block_cache);
    match target {
        0 => {
            assert!(r.is_ok(), "delete: closed file not deleted");
            let post = dev.block(G16A_ROOT);
            assert!(post.contents[0] == 0xE5, "delete: slot not marked deleted");
            let mut p = 1;
            while p < 160 {
                assert!(post.contents[p] == root0.contents[p], "dir.frame: delete changed other directory bytes");
                p += 1;
            }
        }
        2 => {
            assert!(matches!(r, Err(Error::DeleteDirAsFile)), "modes.delete_dir: a directory must not be deleted as a file");
            assert!(dev.nwrites.get() == 0, "modes.refused: a refused delete wrote to the medium");
        }
        3 => {
            assert!(matches!(r, Err(Error::FileAlreadyOpen)), "modes.delete_open: an open file must not be deleted");
            assert!(dev.nwrites.get() == 0, "modes.refused: a refused delete wrote to the medium");
        }
        _ => {
            assert!(matches!(r, Err(Error::NotFound)), "modes.missing: deleting a missing name must report NotFound");
            assert!(dev.nwrites.get() == 0, "modes.refused: a refused delete wrote to the medium");
        }
    }
    assert!(data.open_files.len() == 1, "delete: open-file table changed");
    kani::cover!(r.is_ok() || r.is_err());
}
#[kani::proof]
#[kani::unwind(162)]
fn c07_delete_closed_file() {
    delete_case(0);
}
#[kani::proof]
#[kani::unwind(162)]
fn c07_delete_directory_refused() {
    delete_case(2);
}
#[kani::proof]
#[kani::unwind(162)]
fn c07_delete_open_file_refused() {
    delete_case(3);
}
#[kani::proof]
#[kani::unwind(162)]
fn c07_delete_missing() {
    delete_case(4);
}

/// file_is_open (the guard of open/delete against touching an open file)
/// identifies a file by volume + directory slot only: it must answer "open"
/// for the slot of an open file whatever the other fields of the on-disk entry
/// are (the in-memory entry of a written, unflushed file differs from the medium).
#[kani::proof]
#[kani::unwind(12)]
fn c07_file_is_open_identity() {
    let blocks: [Block; G16A_N] = zero_blocks();
    let mut open = file_info(11, 4, 77, 77, (0, 4), Mode::ReadWriteAppend, 3);
    open.dirty = true;
    let vm = vm_with(blocks, &[open]);
    let data = vm.data.borrow();
    let vol: u32 = kani::any();
    let e = DirEntry {
        name: ShortFileName { contents: kani::any() },
        mtime: any_timestamp(),
        ctime: any_timestamp(),
        attributes: Attributes::create_from_fat(kani::any()),
        cluster: ClusterId(kani::any()),
        size: kani::any(),
        entry_block: BlockIdx(kani::any()),
        entry_offset: kani::any(),
    };
    let r = data.file_is_open(RawVolume(Handle(vol)), &e);
    let same_slot = vol == 1 && e.entry_block.0 == G16A_ROOT && e.entry_offset == 96;
    assert!(r == same_slot, "modes.open_identity: a file is open iff an open handle designates the same volume and directory slot");
    kani::cover!(r && e.cluster.0 == 0 && e.size == 0);
    kani::cover!(!r && vol == 1);
}


// extending writes over the ghost FAT: next_cluster and alloc_cluster stubbed
macro_rules! write_g_h {
    ($name:ident, $fat:expr, $first:expr, $size:expr, $off:expr, $cur:expr, $len:expr, $mode:expr) => {
        #[kani::proof]
        #[kani::unwind(2050)]
        #[kani::stub(crate::fat::FatVolume::alloc_cluster, crate::fat::vk_fatx::stub_alloc_ghost)]
        #[kani::stub(crate::fat::FatVolume::next_cluster, crate::fat::vk_fatx::stub_next_cluster)]
        fn $name() {
            write_case($fat, $first, $size, $off, $cur, $len, $mode, true);
        }
    };
}
write_g_h!(c01_gwrite_extend_one, F35, 3, 1024, 1024, (512, 5), 10, Mode::ReadWriteAppend);
write_g_h!(c01_gwrite_extend_stale_cursor, F352, 3, 1536, 1536, (0, 3), 4, Mode::ReadWriteAppend);
write_g_h!(c01_gwrite_first_cluster, FNONE, 0, 0, 0, (0, 0), 5, Mode::ReadWriteCreate);
write_g_h!(c01_gwrite_extend_two, F35, 3, 1024, 1000, (512, 5), 600, Mode::ReadWriteAppend);
write_g_h!(c05_gwrite_last_free_cluster, F35_ONE, 3, 1024, 1024, (512, 5), 512, Mode::ReadWriteAppend);
write_g_h!(c05_gwrite_disk_full_partial, F35_ONE, 3, 1024, 1000, (512, 5), 600, Mode::ReadWriteAppend);
write_g_h!(c05_gwrite_disk_full_none, F35_FULL, 3, 1024, 1024, (512, 5), 4, Mode::ReadWriteAppend);

// ------------------------------------------- delete releases the clusters ---
/// delete_file_in_dir of a closed 2-cluster file (chain 3 -> 5), directory
/// operations scripted, FAT = ghost FAT: after a successful delete the file's
/// clusters are free again (C05: "deleting a file makes its clusters available").
#[kani::proof]
#[kani::unwind(12)]
#[kani::stub(crate::fat::FatVolume::find_directory_entry, crate::fat::vk_fatx::stub_find_directory_entry)]
#[kani::stub(crate::fat::FatVolume::delete_directory_entry, crate::fat::vk_fatx::stub_delete_directory_entry)]
#[kani::stub(crate::fat::FatVolume::next_cluster, crate::fat::vk_fatx::stub_next_cluster)]
#[kani::stub(crate::fat::FatVolume::update_fat, crate::fat::vk_fatx::stub_update_fat)]
fn c05_delete_releases_clusters() {
    let blocks: [Block; G16A_N] = zero_blocks();
    crate::fat::vk_fatx::ghost_fat_set([0x0FFF_FFF8, 0x0FFF_FFFF, 0x0FFF_FFFF, 5, 0x0FFF_FFFF, 0x0FFF_FFFF, 0, 0]);
    crate::fat::vk_fatx::script_set(3);
    let vm = vm_with(blocks, &[]);
    let r = vm.delete_file_in_dir(RawDirectory(Handle(2)), ShortFileName { contents: *b"GONE    DAT" });
    assert!(r.is_ok(), "delete: closed file not deleted");
    assert!(crate::fat::vk_fatx::script_deletes() == 1, "delete: directory entry not removed exactly once");
    let g = crate::fat::vk_fatx::ghost_fat_get();
    assert!(g[3] == 0 && g[5] == 0, "space.reclaim: clusters of a deleted file are still marked in use (leaked)");
    assert!(g[2] == 0x0FFF_FFFF && g[4] == 0x0FFF_FFFF, "fat.frame: delete changed another file's FAT entries");
    kani::cover!(r.is_ok());
}

// ------------------------------------------------- read with a device fault ---
/// read() across a cluster boundary (chain 3 -> 5 -> 2, offset 510, 4 bytes;
/// device calls: data block of cluster 3, FAT sector, data block of cluster 5)
/// with device call `n` failing and scribbling its buffer: the call reports the
/// device error; after seeking back, the same read without a fault returns the
/// file's bytes (nothing stale or scribbled is served from the cache).
fn read_fault_case(n: u32) {
    let mut blocks = image16(F352);
    let mut c = 0;
    while c < 4 {
        blocks[(G16A_DATA + c) as usize] = any_block();
        c += 1;
    }
    let img = [blocks[G16A_DATA as usize].clone(), blocks[G16A_DATA as usize + 1].clone(), blocks[G16A_DATA as usize + 2].clone(), blocks[G16A_DATA as usize + 3].clone()];
    let vm = vm_with(blocks, &[file_info(10, 3, 1300, 510, (0, 3), Mode::ReadOnly, 1)]);
    {
        let mut data = vm.data.borrow_mut();
        data.block_cache.block_device().fail_at = Some(n);
    }
    let f = RawFile(Handle(10));
    let mut buf = [0u8; 4];
    let r = vm.read(f, &mut buf);
    let fired = {
        let data = vm.data.borrow();
        vk_bd::dev(&data.block_cache).failed.get()
    };
    if fired {
        assert!(matches!(r, Err(Error::DeviceError(_))), "fault.reported: read returned something other than the device error although a device read failed");
    } else {
        assert!(matches!(r, Ok(4)), "file.read: read without a fault failed");
    }
    // the handle is still usable: seek back and read again, now without a fault
    assert!(vm.file_seek_from_start(f, 510).is_ok(), "fault.wedged: handle unusable after a failed read");
    let mut buf2 = [0u8; 4];
    let r2 = vm.read(f, &mut buf2);
    assert!(matches!(r2, Ok(4)), "fault.retry: retried read failed although the fault was transient");
    // model: bytes 510,511 in cluster 3 (index 1), bytes 512,513 in cluster 5 (index 3)
    assert!(buf2[0] == img[1].contents[510] && buf2[1] == img[1].contents[511] && buf2[2] == img[3].contents[0] && buf2[3] == img[3].contents[1], "fault.retry: retried read returned bytes that are not the file's (scribbled or stale cache contents)");
    assert!(vm.file_offset(f).ok() == Some(514), "fault.retry: offset after the retried read");
    kani::cover!(fired);
}
macro_rules! read_fault_h {
    ($name:ident, $n:expr) => {
        #[kani::proof]
        #[kani::unwind(12)]
        fn $name() {
            read_fault_case($n);
        }
    };
}
read_fault_h!(c11_read_fault_first_block, 0);
read_fault_h!(c11_read_fault_fat, 1);
read_fault_h!(c11_read_fault_second_block, 2);
