//! C19: CRC-7 / CRC-16 harnesses.  Lives under `sdcard` (crate::sdcard::vk_sd_crc).
//! Everything here calls the crate's real `crc7` / `crc16`.
use crate::sdcard::proto::{crc16, crc7};

/// Bit-serial reference: remainder modulo x^16+x^12+x^5+1 (0x1021), MSB first, init 0.
fn ref16_step(mut s: u16, b: u8) -> u16 {
    let mut d = b;
    let mut i = 0;
    while i < 8 {
        let top = ((s >> 15) as u8 & 1) ^ (d >> 7);
        s <<= 1;
        if top != 0 {
            s ^= 0x1021;
        }
        d <<= 1;
        i += 1;
    }
    s
}

/// Bit-serial reference: remainder modulo x^7+x^3+1 (0x09), 7-bit state, init 0.
fn ref7_step(mut s: u8, b: u8) -> u8 {
    let mut d = b;
    let mut i = 0;
    while i < 8 {
        let top = ((s >> 6) & 1) ^ (d >> 7);
        s = (s << 1) & 0x7F;
        if top != 0 {
            s ^= 0x09;
        }
        d <<= 1;
        i += 1;
    }
    s
}

fn ref16(m: &[u8]) -> u16 {
    let mut s = 0u16;
    let mut i = 0;
    while i < m.len() {
        s = ref16_step(s, m[i]);
        i += 1;
    }
    s
}

fn ref7(m: &[u8]) -> u8 {
    let mut s = 0u8;
    let mut i = 0;
    while i < m.len() {
        s = ref7_step(s, m[i]);
        i += 1;
    }
    (s << 1) | 1
}

// ---------------------------------------------------------------- CRC-16 ---

/// Step lemma: for every 2-byte prefix and every next byte the real crc16
/// advances exactly like one bit-serial division step from the prefix's crc.
#[kani::proof]
#[kani::unwind(10)]
fn c19_crc16_step_lemma() {
    let a: u8 = kani::any();
    let b: u8 = kani::any();
    let c: u8 = kani::any();
    let s = crc16(&[a, b]);
    let got = crc16(&[a, b, c]);
    assert!(got == ref16_step(s, c), "crc16.step: crc16(m++[b]) != step(crc16(m), b)");
    kani::cover!(got == 0, "crc16 state 0 reachable");
    kani::cover!(got == 0xFFFF, "crc16 state ffff reachable");
}

/// The map (a,b) -> crc16([a,b]) is injective on 2^16 inputs, hence onto all
/// 2^16 running remainders: the step lemma therefore covers every
/// (running remainder, next byte) pair.
#[kani::proof]
#[kani::unwind(10)]
fn c19_crc16_prefix_onto() {
    let a: u8 = kani::any();
    let b: u8 = kani::any();
    let a2: u8 = kani::any();
    let b2: u8 = kani::any();
    kani::assume(a != a2 || b != b2);
    assert!(crc16(&[a, b]) != crc16(&[a2, b2]), "crc16.onto: 2-byte prefix map not injective");
    kani::cover!(crc16(&[a, b]) == 0x1234);
}

/// Base cases + agreement with reference on 0..=2 byte messages.
#[kani::proof]
#[kani::unwind(10)]
fn c19_crc16_base() {
    assert!(crc16(&[]) == 0, "crc16.base: empty message");
    let a: u8 = kani::any();
    let b: u8 = kani::any();
    assert!(crc16(&[a]) == ref16(&[a]), "crc16.base: 1 byte");
    assert!(crc16(&[a, b]) == ref16(&[a, b]), "crc16.base: 2 bytes");
    kani::cover!(crc16(&[a, b]) == 0xBEEF);
}

/// Direct confirmation: all messages of symbolic length 0..=N.
macro_rules! crc16_direct {
    ($name:ident, $n:expr, $unw:expr) => {
        #[kani::proof]
        #[kani::unwind($unw)]
        fn $name() {
            let m: [u8; $n] = kani::any();
            let len: usize = kani::any();
            kani::assume(len <= $n);
            let got = crc16(&m[..len]);
            assert!(got == ref16(&m[..len]), "crc16.direct: differs from bit-serial reference");
            // appended big-endian crc gives zero remainder
            let mut ext = [0u8; $n + 2];
            let mut i = 0;
            while i < len {
                ext[i] = m[i];
                i += 1;
            }
            let be = got.to_be_bytes();
            ext[len] = be[0];
            ext[len + 1] = be[1];
            assert!(crc16(&ext[..len + 2]) == 0, "crc16.residue: crc(m ++ be(crc(m))) != 0");
            kani::cover!(len == $n && got == 0x1D0F);
            kani::cover!(len == 0);
        }
    };
}
crc16_direct!(c19_crc16_direct_4, 4, 10);
crc16_direct!(c19_crc16_direct_8, 8, 12);

/// The step function is GF(2)-linear in (state, byte): this is what lets the
/// error-class harnesses reason about the error pattern alone.
#[kani::proof]
#[kani::unwind(10)]
fn c19_crc16_linear() {
    let a: [u8; 3] = kani::any();
    let b: [u8; 3] = kani::any();
    let x = [a[0] ^ b[0], a[1] ^ b[1], a[2] ^ b[2]];
    assert!(crc16(&x) == crc16(&a) ^ crc16(&b), "crc16.linear: crc(a^b) != crc(a)^crc(b)");
    kani::cover!(crc16(&x) == 0x0001);
}

/// Build a 514-byte error pattern (512 data + 2 crc bytes, big-endian) that
/// is zero except for a 16-bit window `p` starting at bit offset `o`
/// (MSB-first).  Every burst of <= 16 bits, every single-bit error and every
/// double-bit error at distance < 16 has this shape.
fn err_window(o: usize, p: u16) -> [u8; 514] {
    let mut e = [0u8; 514];
    let i = o / 8;
    let sh = (o % 8) as u32;
    let v: u32 = (p as u32) << (8 - sh); // 24-bit value, bits 23..0
    e[i] = (v >> 16) as u8;
    if i + 1 < 514 {
        e[i + 1] = (v >> 8) as u8;
    }
    if i + 2 < 514 {
        e[i + 2] = v as u8;
    }
    e
}

/// An error pattern e over (data ++ crc) is detected iff crc16(e_data) != e_crc
/// (linearity).  Checks every window pattern (burst <= 16) at every position of
/// a full 512-byte block and its CRC, on the real crc16.
#[kani::proof]
#[kani::unwind(515)]
fn c19_crc16_burst_512() {
    let o: usize = kani::any();
    let p: u16 = kani::any();
    kani::assume(p != 0);
    kani::assume(o <= 514 * 8 - 16);
    let e = err_window(o, p);
    let got = crc16(&e[..512]);
    let rx = u16::from_be_bytes([e[512], e[513]]);
    assert!(got != rx, "crc16.burst: undetected burst <= 16 bits in 512-byte block + crc");
    kani::cover!(o == 0);
    kani::cover!(o == 514 * 8 - 16);
    kani::cover!(o == 4090); // straddles data / crc boundary
}

/// Single-bit errors at any position (special case of the window with one bit).
#[kani::proof]
#[kani::unwind(515)]
fn c19_crc16_single_bit_512() {
    let i: usize = kani::any();
    let k: u8 = kani::any();
    kani::assume(i < 514 && k < 8);
    let mut e = [0u8; 514];
    e[i] = 1 << k;
    let got = crc16(&e[..512]);
    let rx = u16::from_be_bytes([e[512], e[513]]);
    assert!(got != rx, "crc16.single: undetected single-bit error");
    kani::cover!(i == 0 && k == 7);
    kani::cover!(i == 513 && k == 0);
}

/// Double-bit errors at any two distinct positions.
#[kani::proof]
#[kani::unwind(515)]
fn c19_crc16_double_bit_512() {
    let i: usize = kani::any();
    let k: u8 = kani::any();
    let j: usize = kani::any();
    let l: u8 = kani::any();
    kani::assume(i < 514 && k < 8 && j < 514 && l < 8);
    kani::assume(i != j || k != l);
    let mut e = [0u8; 514];
    e[i] ^= 1 << k;
    e[j] ^= 1 << l;
    let got = crc16(&e[..512]);
    let rx = u16::from_be_bytes([e[512], e[513]]);
    assert!(got != rx, "crc16.double: undetected double-bit error");
    kani::cover!(i == 0 && j == 513);
    kani::cover!(i == j);
}

// ----------------------------------------------------------------- CRC-7 ---

/// Step lemma for crc7: 1-byte prefix + next byte; the returned frame byte is
/// (remainder << 1) | 1.
#[kani::proof]
#[kani::unwind(10)]
fn c19_crc7_step_lemma() {
    let a: u8 = kani::any();
    let c: u8 = kani::any();
    let f = crc7(&[a]);
    assert!(f & 1 == 1, "crc7.frame: end bit not set");
    let s = f >> 1;
    let got = crc7(&[a, c]);
    assert!(got == (ref7_step(s, c) << 1) | 1, "crc7.step: crc7(m++[b]) != frame(step(state, b))");
    kani::cover!(got == 0x95);
}

/// a -> crc7([a]) is injective on a < 128, hence onto all 128 remainders.
#[kani::proof]
#[kani::unwind(10)]
fn c19_crc7_prefix_onto() {
    let a: u8 = kani::any();
    let a2: u8 = kani::any();
    kani::assume(a < 128 && a2 < 128 && a != a2);
    assert!(crc7(&[a]) != crc7(&[a2]), "crc7.onto: 1-byte prefix map not injective on 0..128");
    kani::cover!(crc7(&[a]) == 0x01);
}

/// Base + direct: all messages of symbolic length 0..=6 (a command frame is 5).
#[kani::proof]
#[kani::unwind(10)]
fn c19_crc7_direct_6() {
    assert!(crc7(&[]) == 1, "crc7.base: empty message");
    let m: [u8; 6] = kani::any();
    let len: usize = kani::any();
    kani::assume(len <= 6);
    let got = crc7(&m[..len]);
    assert!(got == ref7(&m[..len]), "crc7.direct: differs from bit-serial reference");
    kani::cover!(len == 5 && got == 0x95);
    kani::cover!(len == 0);
}

// ------------------------------------------------ length structure (fold) ---
// The induction over message length relies on crc16/crc7 being plain folds of
// the step function over *every* byte of the slice.  These harnesses check
// that on the real code for every length up to N with sparse symbolic content
// (two symbolic bytes at symbolic positions, the rest zero): a length-
// dependent special case, a dropped tail byte or chunked processing shows up
// as a difference from the bit-serial reference at some length.
macro_rules! crc_len_structure {
    ($name:ident, $n:expr, $unw:expr) => {
        #[kani::proof]
        #[kani::unwind($unw)]
        fn $name() {
            let n: usize = kani::any();
            let i: usize = kani::any();
            let j: usize = kani::any();
            kani::assume(n <= $n && i < $n && j < $n);
            let mut m = [0u8; $n];
            m[i] = kani::any();
            m[j] = kani::any();
            assert!(crc16(&m[..n]) == ref16(&m[..n]), "crc16.len: differs from reference at some length (not a fold over every byte)");
            assert!(crc7(&m[..n]) == ref7(&m[..n]), "crc7.len: differs from reference at some length (not a fold over every byte)");
            kani::cover!(n == $n && i == $n - 1 && m[i] != 0);
            kani::cover!(n == 16 && j == 15);
        }
    };
}
crc_len_structure!(c19_crc_len_structure_40, 40, 42);
crc_len_structure!(c19_crc_len_structure_130, 130, 132);
crc_len_structure!(c19_crc_len_structure_520, 520, 522);

/// All messages of length 0..=17 (covers 15/16-byte register images) for crc7.
#[kani::proof]
#[kani::unwind(19)]
fn c19_crc7_direct_17() {
    let m: [u8; 17] = kani::any();
    let len: usize = kani::any();
    kani::assume(len <= 17);
    let got = crc7(&m[..len]);
    assert!(got == ref7(&m[..len]), "crc7.direct: differs from bit-serial reference");
    kani::cover!(len == 16);
    kani::cover!(len == 17 && got == 0x01);
}

/// All messages of length 0..=17 for crc16 (16 = CSD/CID register length).
#[kani::proof]
#[kani::unwind(19)]
fn c19_crc16_direct_17() {
    let m: [u8; 17] = kani::any();
    let len: usize = kani::any();
    kani::assume(len <= 17);
    let got = crc16(&m[..len]);
    assert!(got == ref16(&m[..len]), "crc16.direct: differs from bit-serial reference");
    kani::cover!(len == 16);
    kani::cover!(len == 17 && got == 0);
}
