//! Re-exports of accessors that live in private sub-modules of `filesystem`
//! (crate::filesystem::vk_fs).
#![allow(unused_imports)]
pub use super::handles::vk_handles::next_id;
