//! Re-exports of accessors that live in private sub-modules of `filesystem`
//! (crate::filesystem::vk_fs).
#![allow(unused_imports)]
pub(crate) use super::handles::vk_handles::next_id;
pub(crate) use super::filename::vk_lfn::{stub_lfn_as_str, stub_lfn_clear, stub_lfn_push, LFN_CLEARS, LFN_PUSHES};
