//! Accessor for HandleGenerator's private state (crate::filesystem::handles::vk_handles).
#![allow(dead_code)]
use super::*;
pub fn next_id(g: &HandleGenerator) -> u32 {
    g.next_id.0
}
