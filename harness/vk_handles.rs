//! Accessor for HandleGenerator's private state (crate::filesystem::handles::vk_handles).
#![allow(dead_code)]
use super::*;

/// works whether the counter is a `Wrapping<u32>` (as in the repository) or a plain `u32`
pub trait AsU32 {
    fn as_u32(self) -> u32;
}
impl AsU32 for u32 {
    fn as_u32(self) -> u32 {
        self
    }
}
impl AsU32 for core::num::Wrapping<u32> {
    fn as_u32(self) -> u32 {
        self.0
    }
}
pub fn next_id(g: &HandleGenerator) -> u32 {
    g.next_id.as_u32()
}
