#!/usr/bin/env python3
"""Run registered checks against seeded mutants.
usage: mutants.py [--tier quick|thorough] [--props C01,C02] <seeded-name>...   (default: all under /verif/seeded)
For each mutant: copy /repo's working tree to a scratch dir, apply patch.diff there, run the check of the
property it breaks (or the given --props) with VERIF_REPO pointing at the copy, record seeded/<name>/result.json.
The mutant is never applied to /repo itself."""
import json, os, shutil, subprocess, sys, time
VERIF = os.path.dirname(os.path.dirname(os.path.abspath(__file__)))
args = sys.argv[1:]
tier = "quick"; props = None; names = []
while args:
    a = args.pop(0)
    if a == "--tier": tier = args.pop(0)
    elif a == "--props": props = args.pop(0).split(",")
    else: names.append(a)
if not names:
    names = sorted(d for d in os.listdir(os.path.join(VERIF, "seeded")) if os.path.exists(os.path.join(VERIF, "seeded", d, "patch.diff")))
for n in names:
    d = os.path.join(VERIF, "seeded", n)
    meta = json.load(open(os.path.join(d, "meta.json")))
    ps = props or [meta["breaks_property"]]
    repo = "/var/tmp/mutrepo-%s-%d" % (n, os.getpid())
    shutil.rmtree(repo, ignore_errors=True)
    subprocess.check_call(["rsync", "-a", "--exclude", "/target", "--exclude", ".git", "/repo/", repo + "/"])
    pf = os.path.join(d, "patch_rebased.diff") if os.path.exists(os.path.join(d, "patch_rebased.diff")) else os.path.join(d, "patch.diff")
    r = subprocess.run(["patch", "-p1", "-s", "-i", pf], cwd=repo, capture_output=True, text=True)
    if r.returncode != 0:
        print(n, "PATCH DOES NOT APPLY to current /repo:", r.stdout[-300:], r.stderr[-300:]); shutil.rmtree(repo); continue
    resf = os.path.join(d, "result.json")
    res = json.load(open(resf)) if os.path.exists(resf) else {}
    for p in ps:
        env = dict(os.environ); env["VERIF_REPO"] = repo; env["VERIF_SCRATCH"] = "/var/tmp/verif-scratch-mut"; env["VERIF_NO_REPLAY"] = "1"
        t0 = time.time()
        r = subprocess.run([os.path.join(VERIF, "check"), p, tier, "--no-evidence"], env=env, capture_output=True, text=True)
        lines = [l for l in r.stdout.splitlines() if l.startswith(("VIOLATION", "INCONCLUSIVE", "KNOWN-FINDING", "  harness", "[")) or "FAILED:" in l]
        verdict = {0: "MISSED", 1: "DETECTED", 2: "INCONCLUSIVE"}.get(r.returncode, "rc%d" % r.returncode)
        if r.returncode == 1 and "VIOLATION property=" not in r.stdout:
            verdict = "RUNNER-ERROR"
        print("%-8s %s/%s -> %s (%.0fs)" % (n, p, tier, verdict, time.time() - t0), flush=True)
        for l in lines[:12]: print("     ", l[:220])
        res["%s/%s" % (p, tier)] = {"verdict": verdict, "rc": r.returncode, "wall_s": round(time.time() - t0), "lines": lines[:20]}
    json.dump(res, open(resf, "w"), indent=1)
    shutil.rmtree(repo, ignore_errors=True)
