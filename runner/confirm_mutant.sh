#!/bin/bash
# usage: confirm_mutant.sh <PROP_ID> <k>   (agent output in /tmp/mut/<ID>/OUT, worktree /tmp/mut/<ID>)
# Confirms: demo passes on clean tree; with patch: crate builds, existing suite passes, demo fails.
# On success stores /verif/seeded/<ID>-<k>/{patch.diff,demo.rs,notes.md,meta.json}
set -u
ID=$1; K=$2; W=/tmp/mut/$ID; O=$W/OUT
export CARGO_NET_OFFLINE=true
cd $W || exit 2
git checkout -q -- src 2>/dev/null
DEMO=tests/demo_${ID}_${K}.rs
[ -f $DEMO ] || cp $O/demo$K.rs $DEMO
SUITE="--lib --test directories --test open_files --test read_file --test volume --test write_file --doc"
echo "== demo on clean tree"
cargo test --offline --test demo_${ID}_${K} > /tmp/mut/$ID.clean$K.log 2>&1; c1=$?
git apply $O/patch$K.diff || { echo "patch does not apply"; exit 2; }
echo "== suite with patch"
# doc tests cannot be combined with --test selection in one invocation
cargo test --offline --lib --test directories --test open_files --test read_file --test volume --test write_file > /tmp/mut/$ID.suite$K.log 2>&1; c2=$?
cargo test --offline --doc >> /tmp/mut/$ID.suite$K.log 2>&1; c2b=$?
echo "== demo with patch"
cargo test --offline --test demo_${ID}_${K} > /tmp/mut/$ID.demo$K.log 2>&1; c3=$?
git checkout -q -- src
npass=$(grep -h "^test result: ok" /tmp/mut/$ID.suite$K.log | sed 's/.*ok\. \([0-9]*\) passed.*/\1/' | paste -sd+ | bc)
echo "clean-demo rc=$c1 suite rc=$c2/$c2b (passed=$npass) patched-demo rc=$c3"
if [ $c1 -eq 0 ] && [ $c2 -eq 0 ] && [ $c2b -eq 0 ] && [ $c3 -ne 0 ] && grep -q "test result: FAILED\|panicked" /tmp/mut/$ID.demo$K.log; then
  D=/verif/seeded/$ID-$K; mkdir -p $D
  cp $O/patch$K.diff $D/patch.diff; cp $O/demo$K.rs $D/demo.rs; cp $O/notes$K.md $D/notes.md
  # does it still apply to the current /repo HEAD?
  (cd /repo && git apply --check $D/patch.diff) && applies=true || applies=false
  python3 - "$ID" "$K" "$npass" "$applies" <<'PY'
import json,sys
ID,K,npass,applies=sys.argv[1:5]
notes=open('/verif/seeded/%s-%s/notes.md'%(ID,K)).read()
meta={"id":"%s-%s"%(ID,K),"breaks_property":ID,"source":"independent sub-agent given only the property text and a scratch worktree",
 "needs_to_manifest": notes[:1500],
 "confirmed":{"demo_on_clean_tree":"pass","existing_suite_with_patch":"pass (%s tests incl. doctests)"%npass,"demo_with_patch":"fail",
   "commands":["cargo test --offline --test demo_%s_%s (clean: pass; patched: fail)"%(ID,K),"cargo test --offline --lib --test directories --test open_files --test read_file --test volume --test write_file; cargo test --offline --doc (patched: all pass)"]},
 "applies_to_repo_head": applies=="true"}
json.dump(meta,open('/verif/seeded/%s-%s/meta.json'%(ID,K),'w'),indent=1)
PY
  echo "CONFIRMED -> $D"
else
  echo "NOT CONFIRMED"; tail -5 /tmp/mut/$ID.demo$K.log
fi
