"""Registry of Kani harnesses per property.

Each harness entry:
  prop, name, module           which property, harness fn, harness module file (harness/<module>.rs)
  tier                         "quick" (run in both tiers) or "thorough" (thorough only)
  desc, bounds                 what the query decides / the stated bounds (copied into evidence)
  unwindset                    optional [(file/function regex, source-line regex, bound)] -> --unwindset by loop id
  cbmc_args, kani_args         extra arguments
  timeout, mem_gb, cost        wall cap (s), ulimit -v (GB), scheduling weight
"""

# harness module -> crate source file it is appended to (child module sees the parent's private items)
MODULES = {
    "vk_common": "lib.rs",
    "vk_sd_crc": "sdcard/mod.rs",
}
# harness module -> rust path of the module
MODPATH = {
    "vk_common": "vk_common",
    "vk_sd_crc": "sdcard::vk_sd_crc",
}


def full_name(h):
    return MODPATH[h["module"]] + "::" + h["name"]


HARNESSES = []


def H(prop, module, name, tier="quick", **kw):
    d = dict(prop=prop, module=module, name=name, tier=tier)
    d.update(kw)
    HARNESSES.append(d)


def harnesses_for(prop, tier):
    out = []
    for h in HARNESSES:
        if h["prop"] != prop:
            continue
        if tier == "quick" and h["tier"] != "quick":
            continue
        out.append(dict(h))
    return out


PROPS = {}

# ---------------------------------------------------------------------------
# C19 CRC-7 / CRC-16
# ---------------------------------------------------------------------------
PROPS["C19"] = dict(
    bounds="step lemmas: full width (all 2^24 (2-byte prefix, byte) triples; prefix map proved injective hence onto all "
           "2^16 remainders; crc7: all 2^16 (prefix byte, byte) pairs, prefix map injective on 0..128 hence onto all 128 "
           "remainders); direct comparison with the bit-serial reference: all messages of length 0..=8 (crc16) / 0..=6 "
           "(crc7); error classes: every single-bit, every burst <= 16 bits and every double-bit error position in a "
           "512-byte block plus its 2 CRC bytes, on the real crc16 over the 514-byte error pattern",
    outside="messages longer than 8 bytes are covered by the induction (step lemma + onto), which is an argument over "
            "the fold structure of crc16/crc7, not a single query; error classes rely on GF(2) linearity, checked by the "
            "solver for 3-byte messages and following for all lengths from linearity of one step",
    assumptions=["reference CRC = bit-serial long division written in the harness (ref16_step/ref7_step)"],
)
_crc = "sdcard/proto.rs: crc16, crc7"
H("C19", "vk_sd_crc", "c19_crc16_step_lemma", desc="crc16(m++[b]) == bitserial_step(crc16(m), b), all 2-byte m, all b", bounds="full width", functions=_crc)
H("C19", "vk_sd_crc", "c19_crc16_prefix_onto", desc="2-byte prefix -> running remainder is injective (so onto 2^16 states)", bounds="full width")
H("C19", "vk_sd_crc", "c19_crc16_base", desc="crc16([])==0; 1- and 2-byte messages equal bit-serial reference", bounds="full width")
H("C19", "vk_sd_crc", "c19_crc16_direct_4", desc="all messages len 0..=4 equal reference; m++be(crc) has crc 0", bounds="len<=4")
H("C19", "vk_sd_crc", "c19_crc16_direct_8", tier="thorough", desc="all messages len 0..=8 equal reference; residue 0", bounds="len<=8", timeout=1800)
H("C19", "vk_sd_crc", "c19_crc16_linear", desc="crc16(a^b)==crc16(a)^crc16(b) for all 3-byte a,b", bounds="3 bytes")
H("C19", "vk_sd_crc", "c19_crc16_single_bit_512", desc="every single-bit error in 512B block + 2 crc bytes changes the checksum", bounds="514 bytes, all 4112 positions", timeout=1200)
H("C19", "vk_sd_crc", "c19_crc16_burst_512", desc="every burst <=16 bits at every bit offset of block+crc is detected", bounds="514 bytes, all offsets, all 65535 patterns", timeout=1800, cost=3)
H("C19", "vk_sd_crc", "c19_crc16_double_bit_512", tier="thorough", desc="every double-bit error in block+crc is detected", bounds="514 bytes, all position pairs", timeout=3600, cost=5)
H("C19", "vk_sd_crc", "c19_crc7_step_lemma", desc="crc7(m++[b]) == frame(bitserial_step7(state(m), b)); end bit set", bounds="full width")
H("C19", "vk_sd_crc", "c19_crc7_prefix_onto", desc="1-byte prefix map injective on 0..128 (onto all 128 remainders)", bounds="full width")
H("C19", "vk_sd_crc", "c19_crc7_direct_6", desc="all messages len 0..=6 equal bit-serial reference (command frames are 5 bytes)", bounds="len<=6")
