"""Registry of Kani harnesses per property.

Each harness entry:
  prop, name, module           which property, harness fn, harness module file (harness/<module>.rs)
  tier                         "quick" (run in both tiers) or "thorough" (thorough only)
  desc, bounds                 what the query decides / the stated bounds (copied into evidence)
  unwindset                    optional [(file/function regex, source-line regex, bound)] -> --unwindset by loop id
  cbmc_args, kani_args         extra arguments
  timeout, mem_gb, cost        wall cap (s), ulimit -v (GB), scheduling weight
"""

# harness module -> crate source file it is appended to (child module sees the parent's private items)
MODULES = {
    "vk_common": "lib.rs",
    "vk_sd_crc": "sdcard/mod.rs",
    "vk_codec": "lib.rs",
    "vk_vm": "volume_mgr.rs",
    "vk_bd": "blockdevice.rs",
    "vk_lfn": "filesystem/filename.rs",
    "vk_handles": "filesystem/handles.rs",
    "vk_fs": "filesystem/mod.rs",
    "vk_fat": "fat/volume.rs",
    "vk_sd": "sdcard/mod.rs",
    "vk_fsop": "volume_mgr.rs",
    "vk_fatx": "fat/mod.rs",
}
# harness module -> rust path of the module
MODPATH = {
    "vk_common": "vk_common",
    "vk_sd_crc": "sdcard::vk_sd_crc",
    "vk_codec": "vk_codec",
    "vk_vm": "volume_mgr::vk_vm",
    "vk_bd": "blockdevice::vk_bd",
    "vk_lfn": "filesystem::filename::vk_lfn",
    "vk_handles": "filesystem::handles::vk_handles",
    "vk_fs": "filesystem::vk_fs",
    "vk_fat": "fat::volume::vk_fat",
    "vk_sd": "sdcard::vk_sd",
    "vk_fsop": "volume_mgr::vk_fsop",
    "vk_fatx": "fat::vk_fatx",
}


# harness modules that work on whole block images: Kani concrete playback's JSON trace
# exhausts memory there, counterexamples are confirmed by a second SAT back end instead
HEAVY_MODULES = {"vk_fat", "vk_fsop"}


def full_name(h):
    return MODPATH[h["module"]] + "::" + h["name"]


HARNESSES = []


def H(prop, module, name, tier="quick", **kw):
    d = dict(prop=prop, module=module, name=name, tier=tier)
    d.update(kw)
    HARNESSES.append(d)


def harnesses_for(prop, tier):
    out = []
    for h in HARNESSES:
        if h["prop"] != prop:
            continue
        if tier == "quick" and h["tier"] != "quick":
            continue
        out.append(dict(h))
    return out


PROPS = {}

# ---------------------------------------------------------------------------
# C19 CRC-7 / CRC-16
# ---------------------------------------------------------------------------
PROPS["C19"] = dict(
    bounds="step lemmas: full width (all 2^24 (2-byte prefix, byte) triples; prefix map proved injective hence onto all "
           "2^16 remainders; crc7: all 2^16 (prefix byte, byte) pairs, prefix map injective on 0..128 hence onto all 128 "
           "remainders); direct comparison with the bit-serial reference: all messages of length 0..=8 (crc16) / 0..=6 "
           "(crc7); error classes: every single-bit, every burst <= 16 bits and every double-bit error position in a "
           "512-byte block plus its 2 CRC bytes, on the real crc16 over the 514-byte error pattern",
    outside="messages longer than 8 bytes are covered by the induction (step lemma + onto), which is an argument over "
            "the fold structure of crc16/crc7, not a single query; error classes rely on GF(2) linearity, checked by the "
            "solver for 3-byte messages and following for all lengths from linearity of one step",
    assumptions=["reference CRC = bit-serial long division written in the harness (ref16_step/ref7_step)"],
)
_crc = "sdcard/proto.rs: crc16, crc7"
H("C19", "vk_sd_crc", "c19_crc16_step_lemma", desc="crc16(m++[b]) == bitserial_step(crc16(m), b), all 2-byte m, all b", bounds="full width", functions=_crc)
H("C19", "vk_sd_crc", "c19_crc16_prefix_onto", desc="2-byte prefix -> running remainder is injective (so onto 2^16 states)", bounds="full width")
H("C19", "vk_sd_crc", "c19_crc16_base", desc="crc16([])==0; 1- and 2-byte messages equal bit-serial reference", bounds="full width")
H("C19", "vk_sd_crc", "c19_crc16_direct_4", desc="all messages len 0..=4 equal reference; m++be(crc) has crc 0", bounds="len<=4")
H("C19", "vk_sd_crc", "c19_crc16_direct_8", tier="thorough", desc="all messages len 0..=8 equal reference; residue 0", bounds="len<=8", timeout=1800)
H("C19", "vk_sd_crc", "c19_crc16_linear", desc="crc16(a^b)==crc16(a)^crc16(b) for all 3-byte a,b", bounds="3 bytes")
H("C19", "vk_sd_crc", "c19_crc16_single_bit_512", desc="every single-bit error in 512B block + 2 crc bytes changes the checksum", bounds="514 bytes, all 4112 positions", timeout=1200)
H("C19", "vk_sd_crc", "c19_crc16_burst_512", desc="every burst <=16 bits at every bit offset of block+crc is detected", bounds="514 bytes, all offsets, all 65535 patterns", timeout=1800, cost=3)
H("C19", "vk_sd_crc", "c19_crc16_double_bit_512", tier="thorough", desc="every double-bit error in block+crc is detected", bounds="514 bytes, all position pairs", timeout=3600, cost=5)
H("C19", "vk_sd_crc", "c19_crc7_step_lemma", desc="crc7(m++[b]) == frame(bitserial_step7(state(m), b)); end bit set", bounds="full width")
H("C19", "vk_sd_crc", "c19_crc7_prefix_onto", desc="1-byte prefix map injective on 0..128 (onto all 128 remainders)", bounds="full width")
H("C19", "vk_sd_crc", "c19_crc7_direct_6", desc="all messages len 0..=6 equal bit-serial reference (command frames are 5 bytes)", bounds="len<=6")

H("C19", "vk_sd_crc", "c19_crc_len_structure_40", tier="thorough", desc="crc16/crc7 are folds over every byte: all lengths 0..=40, sparse symbolic content, vs reference", bounds="len<=40, 2 symbolic bytes at symbolic positions", timeout=1200, cost=2)
H("C19", "vk_sd_crc", "c19_crc_len_structure_130", tier="thorough", desc="same, all lengths 0..=130", bounds="len<=130", timeout=3600, cost=4)
H("C19", "vk_sd_crc", "c19_crc7_direct_17", desc="all messages len 0..=17 equal reference (15/16-byte register images)", bounds="len<=17", timeout=3600, cost=3)
H("C19", "vk_sd_crc", "c19_crc16_direct_17", desc="all messages len 0..=17 equal reference", bounds="len<=17", timeout=3600, cost=3)

# ---------------------------------------------------------------------------
# C18 codecs
# ---------------------------------------------------------------------------
PROPS["C18"] = dict(
    bounds="timestamps: all 2^32 (date,time) pairs and all calendar field values (full width); directory entries: all "
           "names/attribute bytes/sizes, clusters < 2^16 (FAT16) / < 2^28 (FAT32), all in-range timestamps, both FAT types; "
           "raw 32-byte slots: all 2^256 contents; 8.3 parser: all strings of 0..=13 characters over U+0000..U+07FF "
           "(every class the parser distinguishes) against a declarative 8.3 grammar; Display->parse: all names of the "
           "shapes 8.3, 3.1 and 5 over all permitted bytes",
    outside="characters above U+07FF (3/4-byte UTF-8; the parser treats everything above U+00FF alike); strings longer than "
            "13 characters (always rejected by length); Display round trip only for three base/extension length shapes",
    assumptions=["8.3 validity oracle = declarative grammar in the harness (ref_parse); FAT slot layout = literal offsets from the FAT specification"],
)
H("C18", "vk_codec", "c18_ts_decode_encode_all_pairs", desc="from_fat total; fields = spec bit fields; decode-then-encode identity for all (date,time) with month,day>=1", bounds="all 2^32 pairs")
H("C18", "vk_codec", "c18_ts_calendar_roundtrip", desc="from_calendar accepts exactly valid fields; encoded words = spec layout; encode-then-decode up to 2 s", bounds="all field values")
H("C18", "vk_codec", "c18_direntry_roundtrip_fat16", desc="serialize -> spec offsets -> get_entry returns same fields", bounds="all entries, cluster<2^16")
H("C18", "vk_codec", "c18_direntry_roundtrip_fat32", desc="serialize -> spec offsets -> get_entry returns same fields", bounds="all entries, cluster<2^28")
H("C18", "vk_codec", "c18_slot_decode_encode_fat16", desc="decode any 32-byte slot, re-encode: name/attr/times/cluster/size preserved", bounds="all 2^256 slots")
H("C18", "vk_codec", "c18_slot_decode_encode_fat32", desc="decode any 32-byte slot, re-encode: name/attr/times/cluster/size preserved", bounds="all 2^256 slots")
H("C18", "vk_codec", "c18_sfn_parse_5", desc="create_from_str == declarative 8.3 grammar (accept set and 11 bytes)", bounds="strings of 0..=5 chars <= U+07FF")
H("C18", "vk_codec", "c18_sfn_parse_9", desc="create_from_str == declarative 8.3 grammar", bounds="strings of 0..=9 chars <= U+07FF", timeout=1800, cost=3)
H("C18", "vk_codec", "c18_sfn_parse_13", tier="thorough", desc="create_from_str == declarative 8.3 grammar", bounds="strings of 0..=13 chars <= U+07FF", timeout=3600, cost=5)
H("C18", "vk_codec", "c18_sfn_display_roundtrip_8_3", tier="thorough", desc="Display then parse gives the same 11 bytes", bounds="all 8.3-shaped names", timeout=1800, cost=3)
H("C18", "vk_codec", "c18_sfn_display_roundtrip_3_1", tier="thorough", desc="Display then parse gives the same 11 bytes", bounds="all 3.1-shaped names", timeout=1800)
H("C18", "vk_codec", "c18_sfn_display_roundtrip_5_0", tier="thorough", desc="Display then parse gives the same 11 bytes", bounds="all 5-char names", timeout=1800)

# ---------------------------------------------------------------------------
# C15 mounting
# ---------------------------------------------------------------------------
PROPS["C15"] = dict(
    bounds="totality: MBR, boot sector and FAT32 info sector are 3 x 512 fully symbolic bytes, partition slots 0..3 each "
           "and any index >= 4; correctness: every MBR entry + boot sector satisfying the FAT specification's validity "
           "predicate (512 B sectors, 1..128 sectors/cluster power of two, 1-2 FATs, >= 1 reserved, 16/32-bit totals and "
           "FAT sizes, any root entry count, >= 4085 clusters, FAT large enough, FAT32: FSVer 0, root cluster in range, "
           "valid info signatures) - all layout fields compared with the spec formulas evaluated in u64",
    outside="GPT disks; 'files placed by an independent formatter are found' is the composition of the layout result with "
            "C06/C01, not a separate run; device read errors during mount are C11's",
    assumptions=["spec validity predicate and layout formulas written in the harness (valid_layout)"],
)
for p in range(4):
    H("C15", "vk_vm", "c15_mount_total_p%d" % p, tier="quick" if p in (0, 3) else "thorough",
      desc="open_raw_volume on arbitrary MBR/boot/info sectors: no panic/overflow/div0/OOB, no write, table consistent", bounds="3x512 symbolic bytes, slot %d" % p, timeout=900)
    H("C15", "vk_vm", "c15_mount_correct_p%d" % p, tier="quick" if p in (0, 3) else "thorough",
      desc="every spec-valid layout opens and FatVolume fields equal the spec formulas", bounds="all valid BPBs, slot %d" % p, timeout=1800, cost=3)
H("C15", "vk_vm", "c15_mount_total_bad_index", desc="volume index >= 4 never yields a volume", bounds="all usize >= 4")

# ---------------------------------------------------------------------------
# C17 long file names
# ---------------------------------------------------------------------------
PROPS["C17"] = dict(
    bounds="LfnBuffer::push: ONE push from an arbitrary buffer state (buffer length 0..=64 symbolic, any free position, any "
           "carried surrogate, any overflow flag, arbitrary stored bytes) with all 13 code units symbolic (thorough) or units "
           "0-3 and 12 symbolic (quick); 1-fragment names from a fresh buffer; 2 pushes into a <=16 byte buffer with direct "
           "UTF-8 validation",
    outside="multi-fragment names are covered by induction over pushes (each push prepends the UTF-8 of whole scalars and the "
            "carried unit is the only coupling) - that composition is an argument, not a query; buffers longer than 64 bytes",
    assumptions=["reference lossy UTF-16 decoder + UTF-8 encoder written in the harness (ref_push)"],
)
H("C17", "vk_lfn", "c17_lfn_push_short", desc="one push, 3 symbolic units + NUL, symbolic carry: no panic, written bytes = UTF-8(lossy(fragment++carry)), flags, old bytes untouched", bounds="buffer<=16, any state", timeout=1500, cost=4)
H("C17", "vk_lfn", "c17_lfn_push_full_capacity", desc="one push, 13 units (first+last symbolic, ASCII between), symbolic carry: no panic (14 decoded chars), content, flags", bounds="buffer<=32, any state", timeout=1500, cost=4)
H("C17", "vk_lfn", "c17_lfn_push_edges", tier="thorough", desc="one push, units 0-3,12 symbolic, 2-byte filler", bounds="buffer<=48, any state", timeout=7200, cost=6, mem_gb=24)
H("C17", "vk_lfn", "c17_lfn_push_full", tier="thorough", desc="one push, all 13 units symbolic: totality, space accounting, flags", bounds="buffer<=64, any state", timeout=10800, cost=8, mem_gb=30)
H("C17", "vk_lfn", "c17_lfn_single_fragment_name", desc="fresh buffer + one fragment: as_str == lossy decoding of the name", bounds="units 0-2,12 symbolic", timeout=1800, cost=2)
H("C17", "vk_lfn", "c17_lfn_two_pushes_utf8", tier="thorough", desc="two pushes into a <=16 byte buffer: as_str is valid UTF-8 (direct validation)", bounds="5 symbolic units", timeout=3600, cost=2, mem_gb=24)

# ---------------------------------------------------------------------------
# C08 handles / limits / lock
# ---------------------------------------------------------------------------
PROPS["C08"] = dict(
    bounds="one call from an arbitrary table state: limits MAX_VOLUMES=MAX_DIRS=MAX_FILES=2, table lengths 0..=2 "
           "(branching over concrete shapes), handle values and generator state symbolic (32 bit), pairwise distinct with two "
           "generations of head-room; every entry point that takes a handle; the three lookup functions on symbolic tables",
    outside="limits other than 2 (the table code is generic over the capacity); handle distinctness needs 'fewer than 2^32 "
            "handles generated since the oldest open handle' (wrap-around reuse is documented by the authors); for "
            "read/write and the directory-taking calls the stale-handle rejection is decided on tables with concrete "
            "payloads / an empty table of that kind, composed with the lookup-function harness (symbolic tables); histories "
            "are covered by the one-step induction over the table invariant; the re-entrancy lock clause is not decided "
            "(every call inside the callback re-explores the whole API body; see DESIGN)",
    assumptions=["table invariant: handles pairwise distinct across kinds, none equal to the generator's next two ids"],
)
for n, d in [
    ("c08_generator_step", "generate() returns next id and advances by exactly 1 mod 2^32"),
    ("c08_open_root_dir", "fresh handle (also twice) / TooManyOpenDirs exactly at capacity / BadHandle for unknown volume / frame"),
    ("c08_open_dir_dot", "open_dir(parent, '.') fresh handle, designates parent, limit, stale parent"),
    ("c08_close_dir", "close frees exactly that slot; stale handle BadHandle; closed handle rejected afterwards"),
    ("c08_close_file", "close_file frees exactly that slot; stale handle BadHandle; rejected afterwards"),
    ("c08_stale_file_read", "read (any buffer length 0..=2) rejects a handle that is not open, no effect"),
    ("c08_stale_file_write", "write rejects a handle that is not open, no effect"),
    ("c08_stale_file_flush_close", "flush_file/close_file reject a handle that is not open, no effect"),
    ("c08_stale_file_seek_query", "eof/seek x3/length/offset reject a handle that is not open"),
    ("c08_stale_dir_open_close", "open_dir/close_dir reject a stale directory handle"),
    ("c08_stale_dir_find_iterate", "find_directory_entry/iterate_dir/iterate_dir_lfn reject a stale directory handle"),
    ("c08_stale_dir_open_file", "open_file_in_dir (all modes) rejects a stale directory handle"),
    ("c08_stale_dir_delete_mkdir", "delete_file_in_dir/make_dir_in_dir reject a stale directory handle"),
    ("c08_lookup_functions", "get_file/dir/volume_by_id: Ok(i) iff table[i] carries the handle, else BadHandle (symbolic tables)"),
    ("c08_limits_full_tables", "TooManyOpenFiles/Dirs/Volumes at capacity before any device access"),
    ("c08_close_volume_and_reopen", "close_volume refused while in use; frees slot; stale; second open of same index refused"),
    ("c08_has_open_handles", "has_open_handles() == dirs non-empty || files non-empty"),
]:
    H("C08", "vk_vm", n, desc=d, bounds="tables<=2 each, handles symbolic", timeout=900)

# ---------------------------------------------------------------------------
# FatVolume-level harnesses shared by C03 C04 C05 C06 C10 C16
# ---------------------------------------------------------------------------
UW_ALLOC = [("find_next_free_cluster", r"while this_fat_ent_offset <= Block::LEN - [24]", 12),
            ("find_next_free_cluster", r"while current_cluster\.0 < end_cluster\.0", 3)]
UW_ALLOC_FULLSCAN = [("find_next_free_cluster", r"while this_fat_ent_offset <= Block::LEN - [24]", 257),
                     ("find_next_free_cluster", r"while current_cluster\.0 < end_cluster\.0", 3)]
PROPS["C05"] = dict(bounds="(in progress)", outside="")
H("C05", "vk_fat", "c05_next_cluster_fat16", desc="next_cluster: every 16-bit FAT entry value classified per spec (bad 0xFFF7, EOC 0xFFF8.., else link)", bounds="all 2^16 entry values")
H("C05", "vk_fat", "c05_next_cluster_fat32", desc="next_cluster: every 32-bit FAT entry value classified per spec (28-bit)", bounds="all 2^32 entry values")
UW_FIND = [("find_next_free_cluster", r"while this_fat_ent_offset <= Block::LEN - [24]", 10),
           ("find_next_free_cluster", r"while current_cluster\.0 < end_cluster\.0", 3)]
H("C05", "vk_fat", "c05_find_free16_from2", desc="find_next_free_cluster: first free cluster in [start,end), never a slack entry; Err iff none", bounds="FAT16: 4 clusters + 2 slack entries symbolic, start 2", unwindset=UW_FIND, timeout=1200, cost=2)
H("C05", "vk_fat", "c05_find_free16_from4", desc="same, scan start 4", bounds="FAT16 4+2 symbolic", unwindset=UW_FIND, timeout=1200, cost=2)
H("C05", "vk_fat", "c05_find_free16_from5_dirty", tier="thorough", desc="same, start 5, rest of FAT sector non-zero", bounds="FAT16 4+2 symbolic, fill 0xFFF7", unwindset=UW_ALLOC_FULLSCAN, timeout=3000, cost=3)
H("C05", "vk_fat", "c05_find_free32_from2", desc="FAT32 find_next_free_cluster", bounds="FAT32: 4 clusters + 2 slack symbolic, start 2", unwindset=UW_FIND, timeout=1200, cost=2)
H("C05", "vk_fat", "c05_find_free32_from3", tier="thorough", desc="FAT32 find_next_free_cluster", bounds="start 3", unwindset=UW_FIND, timeout=1200, cost=2)
_ad = "alloc_cluster on concrete (free map, prev, hint) instances with stale cluster contents symbolic: Ok iff a free in-range cluster exists; result in range, was free, EOC, prev linked; frame at a symbolic entry; region; failed alloc leaves the FAT unchanged"
H("C05", "vk_fat", "c05_alloc16_a_3e_p2", desc=_ad, bounds="free map 0x3E, prev 2, zero=False, hint None", unwindset=UW_ALLOC, timeout=600, cost=2, mem_gb=16)
H("C05", "vk_fat", "c05_alloc16_a_38_p3_h4", desc=_ad, bounds="free map 0x38, prev 3, zero=False, hint 4", unwindset=UW_ALLOC, timeout=600, cost=2, mem_gb=16)
H("C05", "vk_fat", "c05_alloc16_a_30_p2", tier="thorough", desc=_ad, bounds="free map 0x30, prev 2, zero=False, hint None", unwindset=UW_ALLOC, timeout=600, cost=2, mem_gb=16)
H("C05", "vk_fat", "c05_alloc16_a_3f_none", desc=_ad, bounds="free map 0x3F, prev 0, zero=False, hint None", unwindset=UW_ALLOC, timeout=600, cost=2, mem_gb=16)
H("C05", "vk_fat", "c05_alloc16_a_31_p5_h5", tier="thorough", desc=_ad, bounds="free map 0x31, prev 5, zero=False, hint 5", unwindset=UW_ALLOC, timeout=600, cost=2, mem_gb=16)
H("C05", "vk_fat", "c05_alloc16_a_34_p2_h1000", tier="thorough", desc=_ad, bounds="free map 0x34, prev 2, zero=False, hint 1000", unwindset=UW_ALLOC, timeout=600, cost=2, mem_gb=16)
H("C05", "vk_fat", "c05_alloc16_a_32_p2_h6", tier="thorough", desc=_ad, bounds="free map 0x32, prev 2, zero=False, hint 6", unwindset=UW_ALLOC, timeout=600, cost=2, mem_gb=16)
H("C05", "vk_fat", "c05_alloc16_a_00_p2", tier="thorough", desc=_ad, bounds="free map 0x00, prev 2, zero=False, hint None", unwindset=UW_ALLOC, timeout=600, cost=2, mem_gb=16)
H("C05", "vk_fat", "c05_alloc16_a_08_p2", tier="thorough", desc=_ad, bounds="free map 0x08, prev 2, zero=False, hint None", unwindset=UW_ALLOC, timeout=600, cost=2, mem_gb=16)
H("C05", "vk_fat", "c05_alloc16_a_18_p2", tier="thorough", desc=_ad, bounds="free map 0x18, prev 2, zero=False, hint None", unwindset=UW_ALLOC, timeout=600, cost=2, mem_gb=16)
H("C05", "vk_fat", "c05_alloc16_a_3e_p2_zero", tier="thorough", desc=_ad, bounds="free map 0x3E, prev 2, zero=True, hint None", unwindset=UW_ALLOC, timeout=600, cost=2, mem_gb=16)
H("C05", "vk_fat", "c05_alloc16_a_38_p4_zero", tier="thorough", desc=_ad, bounds="free map 0x38, prev 4, zero=True, hint None", unwindset=UW_ALLOC, timeout=600, cost=2, mem_gb=16)
H("C05", "vk_fat", "c05_alloc16_a_30_p5_zero", tier="thorough", desc=_ad, bounds="free map 0x30, prev 5, zero=True, hint None", unwindset=UW_ALLOC, timeout=600, cost=2, mem_gb=16)
PROPS["C04"] = dict(bounds="(in progress)", outside="")
H("C04", "vk_fat", "c04_update_fat16_frame_c3", desc="update_fat FAT16: only the addressed entry changes; only FAT sector written", bounds="FAT sector fully symbolic, new value symbolic, cluster 3", mem_gb=20)
H("C04", "vk_fat", "c04_update_fat16_frame_c255", tier="thorough", desc="update_fat FAT16 frame, last entry of the sector", bounds="cluster 255", mem_gb=20)
H("C04", "vk_fat", "c04_cluster_to_block_in_data_area", desc="cluster_to_block inside the data area for fully symbolic geometry", bounds="all geometries satisfying the mount invariant, bpc 1..128")
PROPS["C16"] = dict(bounds="(in progress)", outside="")
H("C16", "vk_fat", "c16_update_fat32_both_copies_c5", desc="update_fat FAT32 2 FATs: both copies written and identical; high nibble preserved; frame", bounds="both FAT sectors fully symbolic, new value symbolic, cluster 5", mem_gb=20)
H("C16", "vk_fat", "c16_update_fat32_both_copies_c127", tier="thorough", desc="same, last entry of the sector", bounds="cluster 127", mem_gb=20)

# ---------------------------------------------------------------------------
# C12 / C13 / C14 SD card driver
# ---------------------------------------------------------------------------
UW_SD = [("sdcard/mod.rs", r"^\s*loop \{", 5), ("sdcard/mod.rs", r"= loop \{", 5),
         ("acquire", r"for _attempts in 1\.\.", 3), ("acquire", r"for _ in 0\.\.0xFF", 2), ("acquire", r"while s\.card_acmd", 5)]
_sdb = "card model: SPI-mode SD card state machine written from the SD Physical Layer spec (harness vk_sd::Card) with protocol monitor; response delay, data-token delay and busy length 0..=2 bytes, concrete per instance; payloads and card memory (3-block window) fully symbolic; block numbers concrete per instance"
PROPS["C12"] = dict(bounds=_sdb + "; transfers of 1 and 2 blocks; all three card kinds; CRC on/off; CSD fully symbolic",
    outside="card timings above 2 bytes (up to the driver's 10 000/50 000-poll budgets: loop shape argument, see C13); transfers of more than 2 blocks; block numbers other than the instances' (the address computation is linear: *512 for standard capacity); sequences of calls are covered one call at a time from a consistent (driver, card) state",
    assumptions=["SD card behaviour = harness model Card (about 300 lines, written from the specification)"])
PROPS["C14"] = dict(bounds=_sdb, outside="sequences of more than one driver call (one-step from any consistent driver/card state instead); re-initialisation after mark_card_uninit is the identification harness run from a card in any state", assumptions=["protocol monitor = harness model Card"])
PROPS["C13"] = dict(bounds=_sdb + "; corruption: the card's CRC-16 xored with any 16-bit value; any data response token, any status byte, any wrong data token, SPI error at any byte index",
    outside="termination under an adversarial card is decided with the three Delay budgets stubbed to <= 2 (the real budgets are 10 000 / 50 000 polls); see DESIGN", assumptions=[])
for n, t in [("c12_acquire_probe", "quick"), ("c12_acquire_sdhc_crc", "quick"), ("c12_acquire_sd1_nocrc", "quick"), ("c12_acquire_sd2_crc", "thorough"), ("c12_acquire_sdhc_nocrc_d2", "thorough"), ("c12_acquire_sd1_crc_d2", "thorough")]:
    H("C12", "vk_sd", n, tier=t, desc="acquire(): kind identified, card ready, CRC mode as requested, legal conversation", bounds="kind/CRC per instance, response delay and ACMD41 polls symbolic", unwindset=UW_SD, timeout=900, cost=2)
for n in ["c12_capacity_sd1", "c12_capacity_sd2", "c12_capacity_sdhc"]:
    H("C12", "vk_sd", n, desc="num_blocks() == capacity encoded in the CSD for its structure version", bounds="CSD fully symbolic", unwindset=UW_SD, timeout=900, cost=2)
for n in ["c12_read1_sdhc_crc", "c12_read1_sd1_nocrc"]:
    H("C12", "vk_sd", n, tier="thorough", desc="single-block read returns the addressed block; memory unchanged; legal conversation", bounds="memory+timings symbolic", unwindset=UW_SD, timeout=1800, cost=4, mem_gb=24)
for n in ["c12_read1_sd2_crc", "c12_read1_sdhc_nocrc_high", "c12_read2_sdhc_crc", "c12_read2_sd2_nocrc", "c12_write1_sd1_nocrc", "c12_write1_sd2_crc", "c12_write2_sdhc_crc", "c12_write2_sd1_nocrc"]:
    H("C12", "vk_sd", n, tier="thorough", desc="read/write transfer == addressed blocks, nothing else changes, legal conversation", bounds="memory+payload+timings symbolic", unwindset=UW_SD, timeout=3600, cost=5, mem_gb=24)
H("C12", "vk_sd", "c12_write1_sdhc_crc", tier="thorough", desc="single-block write stores exactly the given bytes at the addressed block only; legal conversation", bounds="memory+payload+timings symbolic", unwindset=UW_SD, timeout=1800, cost=4, mem_gb=24)
H("C13", "vk_sd", "c13_read_crc_mismatch_rejected", desc="CRC on: read Ok iff the appended CRC equals crc16(received data)", bounds="any 16-bit corruption of the CRC, data symbolic", unwindset=UW_SD, timeout=1800, cost=4, mem_gb=24)
H("C13", "vk_sd", "c13_write_faults_reported", desc="write: rejected data response or non-zero CMD13 status => Err (both CRC modes)", bounds="any response token, any status byte", unwindset=UW_SD, timeout=1800, cost=4, mem_gb=24)
H("C13", "vk_sd", "c13_read_bad_token_or_bus_error", tier="thorough", desc="read: wrong data token or SPI error at any byte => Err", bounds="any token, any byte index", unwindset=UW_SD, timeout=1800, cost=4, mem_gb=24)
UW_SD_EVIL = UW_SD[:3] + [("acquire", r"for _ in 0\\.\\.0xFF", 256), ("acquire", r"while s\\.card_acmd", 5)]
_stub = ["-Z", "stubbing"]
H("C13", "vk_sd", "c13_delay_budget_step", desc="Delay::delay fails exactly when the budget is 0, else decrements by one", bounds="all 2^32 budgets")
H("C13", "vk_sd", "c13_bounded_card_command", desc="adversarial peer (every MISO byte arbitrary, bus error at any byte): card_command returns within 2(B+1)+7 bytes", bounds="any command/argument, Delay budgets stubbed <= 2", kani_args=_stub, unwindset=UW_SD_EVIL, timeout=900, cost=2)
H("C13", "vk_sd", "c13_bounded_read_single", tier="thorough", desc="adversarial peer: single-block read bounded; bus error => Err", bounds="budgets <= 2", kani_args=_stub, unwindset=UW_SD_EVIL, timeout=1800, cost=4, mem_gb=24)
H("C13", "vk_sd", "c13_bounded_write_single", desc="adversarial peer: single-block write bounded; bus error => Err", bounds="budgets <= 2", kani_args=_stub, unwindset=UW_SD_EVIL, timeout=1800, cost=4, mem_gb=24)
H("C13", "vk_sd", "c13_bounded_acquire", tier="thorough", desc="adversarial peer: initialisation bounded; failed init leaves card_type None", bounds="budgets <= 2, acquire_retries 1", kani_args=_stub, unwindset=UW_SD_EVIL, timeout=7200, cost=8, mem_gb=30)
# C14: the protocol monitor assertions (labels sd.proto / sd.addr) of the same harnesses
for n, t in [("c12_acquire_probe", "quick"), ("c12_acquire_sdhc_crc", "quick"), ("c12_acquire_sd1_nocrc", "quick"), ("c12_acquire_sd2_crc", "thorough"), ("c12_acquire_sdhc_nocrc_d2", "thorough"), ("c12_acquire_sd1_crc_d2", "thorough")]:
    H("C14", "vk_sd", n, tier=t, desc="identification conversation legal: frames (start/transmission bits, CRC-7, end bit), CMD0 first, CMD8 before ACMD41, CMD55 prefix, HCS for v2 cards, not while busy", bounds="kind/CRC/timing per instance", unwindset=UW_SD, timeout=900, cost=2)
H("C14", "vk_sd", "c14_reinit_after_uninit", desc="re-initialisation after mark_card_uninit from a ready card: legal conversation, card initialised again", bounds="SDHC, CRC before/after symbolic", unwindset=UW_SD, timeout=900, cost=2)
for n, t in [("c12_read1_sdhc_crc", "thorough"), ("c12_write1_sdhc_crc", "thorough"), ("c12_read2_sdhc_crc", "thorough"), ("c12_write2_sdhc_crc", "thorough"), ("c12_read2_sd2_nocrc", "thorough"), ("c12_write2_sd1_nocrc", "thorough")]:
    H("C14", "vk_sd", n, tier=t, desc="data transfer conversation legal: data commands only when ready, token + 512 bytes + 2 CRC bytes (valid when CRC on), host idle while card sends, CMD18 ended by CMD12, CMD25 by the stop token, nothing sent while busy", bounds="memory/payload symbolic, timing per instance", unwindset=UW_SD, timeout=3600, cost=5, mem_gb=30)

# ---------------------------------------------------------------------------
# C06 directory listing / lookup
# ---------------------------------------------------------------------------
PROPS["C06"] = dict(
    bounds="directory contents fully symbolic (every byte of every slot: live, deleted, long-name, volume-label slots and end "
           "markers arise as values): FAT16 fixed root of 16 slots; FAT32 root of 2 clusters (chain 2->4) and FAT16 sub-directory of 2 "
           "clusters (chain 3->5) with the first cluster holding 16 concrete live entries and the second fully symbolic; looked-up name symbolic (11 bytes); listing compared at a symbolic index k",
    outside="directories of more than 2 clusters / more than 1 block per cluster; symbolic chain topology (chains are concrete "
            "per instance because a symbolic next-cluster value makes every block access symbolic); FAT16 roots of other sizes "
            "(the block count arithmetic BlockCount::from_bytes is covered for 16 entries only); open_dir's use of the entry's "
            "cluster is the codec result of C18 (cluster 0 + directory = root); names starting with 0xE5 (see known finding)",
    assumptions=["spec reader of the FAT directory format written in the harness (spec_find / spec_kth_live / slot_matches_entry)"],
)
H("C06", "vk_fat", "c06_find_root16", desc="find_directory_entry == spec lookup (first matching slot before the end marker, stored fields)", bounds="FAT16 root 16 slots fully symbolic, name symbolic", timeout=1500, cost=3, mem_gb=20)
H("C06", "vk_fat", "c06_iterate_root16", desc="iterate_dir == spec listing: count and k-th entry (order, fields), no deleted slot, nothing past the end marker", bounds="FAT16 root 16 slots fully symbolic, k symbolic", timeout=1500, cost=3, mem_gb=20)
H("C06", "vk_fat", "c06_find_root32_two_clusters", tier="thorough", desc="FAT32 root over chain 2->4: lookup continues into the second cluster", bounds="first cluster 16 concrete live entries, second cluster 16 slots fully symbolic, name symbolic", timeout=2400, cost=4, mem_gb=24)
H("C06", "vk_fat", "c06_iterate_root32_two_clusters", tier="thorough", desc="FAT32 root over chain 2->4: listing", bounds="first cluster concrete, second fully symbolic, k symbolic", timeout=3600, cost=5, mem_gb=24)
H("C06", "vk_fat", "c06_find_subdir16_two_clusters", tier="thorough", desc="FAT16 sub-directory over chain 3->5: lookup follows the chain", bounds="first cluster 16 concrete live entries, second cluster 16 slots fully symbolic, name symbolic", timeout=2400, cost=4, mem_gb=24)

UW_DIR = [("memcmp", r".", 12),
          ("find_entry_in_block|delete_entry_in_block", r".", 17),
          ("FatVolume::find_directory_entry|FatVolume::delete_directory_entry|FatVolume::iterate_fat", r"chunks_exact", 17),
          ("FatVolume::find_directory_entry|FatVolume::delete_directory_entry|FatVolume::iterate_fat", r".", 3),
          ("FatVolume::write_new_directory_entry", r"chunks_exact|dir_entry_bytes", 17),
          ("FatVolume::write_new_directory_entry", r".", 3)]
PROPS["C03"] = dict(bounds="(in progress)", outside="")
PROPS["C02"] = dict(bounds="(in progress)", outside="")
H("C03", "vk_fat", "c03_new_entry_root16", desc="write_new_directory_entry: first free slot gets exactly the new entry, other bytes preserved, only the root block written; full root => NotEnoughSpace, nothing written", bounds="FAT16 root: first byte of slots 0-3 and 15 symbolic (free/deleted/live), rest concrete; attributes symbolic", unwindset=UW_DIR, timeout=2400, cost=4, mem_gb=30)
H("C03", "vk_fat", "c03_delete_entry_root16", desc="delete_directory_entry: first matching slot marked 0xE5, nothing else changes; NotFound writes nothing", bounds="FAT16 root fully symbolic, name symbolic", timeout=1500, cost=3, mem_gb=20)
H("C02", "vk_fat", "c02_write_entry_fat16_s0", desc="write_entry_to_disk (flush/close): owned slot == FAT layout of the entry, rest of block preserved", bounds="block and entry fully symbolic, slot 0", timeout=1500, cost=3, mem_gb=20)
H("C02", "vk_fat", "c02_write_entry_fat16_s15", tier="thorough", desc="same, slot 15", bounds="block and entry fully symbolic", timeout=1500, cost=3, mem_gb=20)
H("C02", "vk_fat", "c02_write_entry_fat32_s7", desc="same, FAT32 (cluster high word), slot 7", bounds="block and entry fully symbolic", timeout=1500, cost=3, mem_gb=20)
UW_TRUNC = [("truncate_cluster_chain", r".", 6)]
H("C16", "vk_fat", "c16_update_info_sector", desc="update_info_sector writes count/hint at 488..496, preserves the rest, unknown stays as found", bounds="info sector fully symbolic, record symbolic")
UW_TRUNC3 = [("truncate_cluster_chain", r".", 3)]
for n in ["c16_truncate16_chain2"]:
    H("C16", "vk_fat", n, tier="thorough", cbmc_args=["--max-field-sensitivity-array-size", "512"], desc="truncate_cluster_chain: kept cluster EOC, tail free, frame, free count += clusters freed, hint sane", bounds="concrete chain, record symbolic", unwindset=UW_TRUNC3, timeout=1500, cost=3, mem_gb=30)
for n in ["c16_truncate16_chain1", "c16_truncate16_chain4", "c16_truncate16_chain3"]:
    H("C16", "vk_fat", n, tier="thorough", desc="truncate_cluster_chain on 1- and 4-cluster chains", bounds="concrete chain, record symbolic", unwindset=UW_TRUNC, timeout=1500, cost=3, mem_gb=20)

PROPS["C01"] = dict(bounds="(in progress)", outside="")
_rd = "VolumeManager::read: count == min(len, left), bytes == byte-array model of the chain, offset/length/eof, cursor cache consistent, no write, other open file untouched"
for n, t in [("c01_read_start", "quick"), ("c01_read_cross_cluster", "quick"), ("c01_read_backwards_seek", "quick"), ("c01_read_backward_chain", "quick"), ("c01_read_clipped_eof", "quick"),
             ("c01_read_cross_two", "thorough"), ("c01_read_at_eof", "thorough"), ("c01_read_cursor_behind", "thorough"), ("c01_read_block_aligned", "thorough"), ("c01_read_empty_buffer", "thorough")]:
    H("C01", "vk_fsop", n, tier=t, desc=_rd, bounds="file contents (4 data clusters) fully symbolic; chain/size/offset/cursor/length concrete per instance", timeout=1200, cost=3, mem_gb=24)

UW_FILE = [("find_data_on_disk", r".", 5), ("VolumeManager", r"while written < bytes_to_write|while space > 0", 5)]
UW_WRITE = UW_ALLOC + [("vk_fsop", r"pos < 2048", 2050)]
_wr = "VolumeManager::write: bytes in range == payload, other file bytes unchanged, length/offset, chain growth from free clusters linked after the tail, FAT frame, only FAT + own clusters written, other open file untouched, dirty set, cursor cache consistent"
for n, t, p in [("c01_write_middle", "thorough", "C01"), ("c01_write_block_start_partial", "thorough", "C01"), ("c01_write_cross_end_midblock", "quick", "C01"), ("c01_write_extend_one", "thorough", "C01"),
             ("c01_write_extend_stale_cursor", "thorough", "C01"), ("c01_write_cross_end_in_last_block", "quick", "C01"), ("c01_write_first_cluster", "thorough", "C01"), ("c01_write_full_block", "thorough", "C01"), ("c01_write_extend_within_cluster", "thorough", "C01"),
             ("c01_write_extend_two", "thorough", "C01"), ("c01_write_backward_chain", "thorough", "C01"), ("c01_write_empty_buffer", "thorough", "C01"),
             ("c05_write_last_free_cluster", "thorough", "C05"), ("c05_write_disk_full_partial", "thorough", "C05"), ("c05_write_disk_full_none", "thorough", "C05"),
             ("c07_write_readonly_refused", "quick", "C07")]:
    H(p, "vk_fsop", n, tier=t, mem_est=12, desc=_wr, bounds="payload (<=600 B), old file contents and root block fully symbolic; chain/size/offset/cursor/length/free map concrete per instance; alloc_cluster replaced by the abstract allocator stub (contract = C05 allocator harnesses)", kani_args=["-Z", "stubbing"], unwindset=UW_ALLOC + UW_FILE, timeout=2400, cost=4, mem_gb=30)
PROPS["C07"] = dict(bounds="(in progress)", outside="")

UW_DIR = [("memcmp", r".", 12),
          ("find_entry_in_block|delete_entry_in_block", r".", 17),
          ("FatVolume::find_directory_entry|FatVolume::delete_directory_entry|FatVolume::iterate_fat", r"chunks_exact", 17),
          ("FatVolume::find_directory_entry|FatVolume::delete_directory_entry|FatVolume::iterate_fat", r".", 3),
          ("FatVolume::write_new_directory_entry", r"chunks_exact|dir_entry_bytes", 17),
          ("FatVolume::write_new_directory_entry", r".", 3)]
UW_OPEN = UW_ALLOC + UW_TRUNC + UW_DIR
UW_DIR6 = [("memcmp", r".", 12),
           ("find_entry_in_block|delete_entry_in_block", r".", 6),
           ("FatVolume::find_directory_entry|FatVolume::delete_directory_entry|FatVolume::iterate_fat", r"chunks_exact", 6),
           ("FatVolume::find_directory_entry|FatVolume::delete_directory_entry|FatVolume::iterate_fat", r".", 3),
           ("FatVolume::write_new_directory_entry", r"chunks_exact|dir_entry_bytes", 6),
           ("FatVolume::write_new_directory_entry", r".", 3)]
UW_OPEN6 = UW_ALLOC + UW_TRUNC + UW_DIR6
_od = "open_file_in_dir result == documented mode matrix for this (target, mode); refused calls write nothing and leave the tables unchanged; truncate empties and frees the tail; append starts at the end; created file empty in the first free slot; fresh handle"
H("C07", "vk_fsop", "c07_open_a_ro", desc=_od, bounds="target A, mode ro", unwindset=UW_OPEN6, timeout=1500, cost=3, mem_gb=24, mem_est=16)
H("C07", "vk_fsop", "c07_open_a_append", desc=_od, bounds="target A, mode append", unwindset=UW_OPEN6, timeout=1500, cost=3, mem_gb=24, mem_est=16)
H("C07", "vk_fsop", "c07_open_a_trunc", tier="thorough", desc=_od, bounds="target A, mode trunc", unwindset=UW_OPEN6, timeout=3600, cost=3, mem_gb=40)
H("C07", "vk_fsop", "c07_open_a_create", desc=_od, bounds="target A, mode create", unwindset=UW_OPEN6, timeout=1500, cost=3, mem_gb=24, mem_est=16)
H("C07", "vk_fsop", "c07_open_a_create_or_trunc", tier="thorough", desc=_od, bounds="target A, mode create_or_trunc", unwindset=UW_OPEN6, timeout=3600, cost=3, mem_gb=40)
H("C07", "vk_fsop", "c07_open_a_create_or_append", tier="thorough", mem_est=30, desc=_od, bounds="target A, mode create_or_append", unwindset=UW_OPEN6, timeout=1500, cost=3, mem_gb=44)
H("C07", "vk_fsop", "c07_open_r_ro", desc=_od, bounds="target R, mode ro", unwindset=UW_OPEN6, timeout=1500, cost=3, mem_gb=24, mem_est=16)
H("C07", "vk_fsop", "c07_open_r_append", desc=_od, bounds="target R, mode append", unwindset=UW_OPEN6, timeout=1500, cost=3, mem_gb=24, mem_est=16)
H("C07", "vk_fsop", "c07_open_r_trunc", tier="thorough", desc=_od, bounds="target R, mode trunc", unwindset=UW_OPEN6, timeout=1500, cost=3, mem_gb=24, mem_est=16)
H("C07", "vk_fsop", "c07_open_r_create", tier="thorough", desc=_od, bounds="target R, mode create", unwindset=UW_OPEN6, timeout=1500, cost=3, mem_gb=24, mem_est=16)
H("C07", "vk_fsop", "c07_open_r_create_or_trunc", tier="thorough", mem_est=30, desc=_od, bounds="target R, mode create_or_trunc", unwindset=UW_OPEN6, timeout=1500, cost=3, mem_gb=44)
H("C07", "vk_fsop", "c07_open_r_create_or_append", tier="thorough", mem_est=30, desc=_od, bounds="target R, mode create_or_append", unwindset=UW_OPEN6, timeout=1500, cost=3, mem_gb=44)
_odc = "read-only-attribute file opened in a writing mode: Err(ReadOnly), nothing written, tables unchanged, and neither truncate_cluster_chain nor write_new_directory_entry is reached (both replaced by counting stubs so the query stays small when the refusal is missing)"
H("C07", "vk_fsop", "c07_open_r_trunc_cut", tier="thorough", desc=_odc, bounds="target R, mode trunc; truncation and entry creation stubbed", kani_args=["-Z", "stubbing"], unwindset=UW_OPEN6, timeout=1500, cost=3, mem_gb=24, mem_est=16)
H("C07", "vk_fsop", "c07_open_r_create_or_trunc_cut", desc=_odc, bounds="target R, mode create_or_trunc; truncation and entry creation stubbed", kani_args=["-Z", "stubbing"], unwindset=UW_OPEN6, timeout=1500, cost=3, mem_gb=24, mem_est=16)
H("C07", "vk_fsop", "c07_open_r_create_or_append_cut", desc=_odc, bounds="target R, mode create_or_append; truncation and entry creation stubbed", kani_args=["-Z", "stubbing"], unwindset=UW_OPEN6, timeout=1500, cost=3, mem_gb=24, mem_est=16)
H("C07", "vk_fsop", "c07_open_d_ro", desc=_od, bounds="target D, mode ro", unwindset=UW_OPEN6, timeout=1500, cost=3, mem_gb=24, mem_est=16)
H("C07", "vk_fsop", "c07_open_d_append", tier="thorough", desc=_od, bounds="target D, mode append", unwindset=UW_OPEN6, timeout=1500, cost=3, mem_gb=24, mem_est=16)
H("C07", "vk_fsop", "c07_open_d_trunc", tier="thorough", desc=_od, bounds="target D, mode trunc", unwindset=UW_OPEN6, timeout=1500, cost=3, mem_gb=24, mem_est=16)
H("C07", "vk_fsop", "c07_open_d_create", tier="thorough", desc=_od, bounds="target D, mode create", unwindset=UW_OPEN6, timeout=1500, cost=3, mem_gb=24, mem_est=16)
H("C07", "vk_fsop", "c07_open_d_create_or_trunc", tier="thorough", desc=_od, bounds="target D, mode create_or_trunc", unwindset=UW_OPEN6, timeout=1500, cost=3, mem_gb=24, mem_est=16)
H("C07", "vk_fsop", "c07_open_d_create_or_append", tier="thorough", desc=_od, bounds="target D, mode create_or_append", unwindset=UW_OPEN6, timeout=1500, cost=3, mem_gb=24, mem_est=16)
H("C07", "vk_fsop", "c07_open_o_ro", tier="thorough", desc=_od, bounds="target O, mode ro", unwindset=UW_OPEN6, timeout=1500, cost=3, mem_gb=24, mem_est=16)
H("C07", "vk_fsop", "c07_open_o_append", desc=_od, bounds="target O, mode append", unwindset=UW_OPEN6, timeout=1500, cost=3, mem_gb=24, mem_est=16)
H("C07", "vk_fsop", "c07_open_o_trunc", tier="thorough", desc=_od, bounds="target O, mode trunc", unwindset=UW_OPEN6, timeout=1500, cost=3, mem_gb=24, mem_est=16)
H("C07", "vk_fsop", "c07_open_o_create", tier="thorough", desc=_od, bounds="target O, mode create", unwindset=UW_OPEN6, timeout=1500, cost=3, mem_gb=24, mem_est=16)
H("C07", "vk_fsop", "c07_open_o_create_or_trunc", tier="thorough", desc=_od, bounds="target O, mode create_or_trunc", unwindset=UW_OPEN6, timeout=1500, cost=3, mem_gb=24, mem_est=16)
H("C07", "vk_fsop", "c07_open_o_create_or_append", tier="thorough", desc=_od, bounds="target O, mode create_or_append", unwindset=UW_OPEN6, timeout=1500, cost=3, mem_gb=24, mem_est=16)
H("C07", "vk_fsop", "c07_open_m_ro", desc=_od, bounds="target M, mode ro", unwindset=UW_OPEN6, timeout=1500, cost=3, mem_gb=24, mem_est=16)
H("C07", "vk_fsop", "c07_open_m_append", tier="thorough", desc=_od, bounds="target M, mode append", unwindset=UW_OPEN6, timeout=1500, cost=3, mem_gb=24, mem_est=16)
H("C07", "vk_fsop", "c07_open_m_trunc", tier="thorough", desc=_od, bounds="target M, mode trunc", unwindset=UW_OPEN6, timeout=3600, cost=3, mem_gb=40)
H("C07", "vk_fsop", "c07_open_m_create", tier="thorough", desc=_od, bounds="target M, mode create", unwindset=UW_OPEN6, timeout=3600, cost=3, mem_gb=40)
H("C07", "vk_fsop", "c07_open_m_create_or_trunc", tier="thorough", desc=_od, bounds="target M, mode create_or_trunc", unwindset=UW_OPEN6, timeout=3600, cost=3, mem_gb=40)
H("C07", "vk_fsop", "c07_open_m_create_or_append", tier="thorough", desc=_od, bounds="target M, mode create_or_append", unwindset=UW_OPEN6, timeout=3600, cost=3, mem_gb=40)

H("C06", "vk_fat", "c06_find_subdir16_chain_followed", tier="thorough", desc="FAT16 sub-directory over chain 3->5: lookup follows the chain into the second cluster", bounds="first cluster concrete (16 live entries), second cluster slots 0-3 symbolic, name symbolic", unwindset=UW_DIR, timeout=1500, cost=3, mem_gb=20)
for n, t in [("c01_locate_first", "quick"), ("c01_locate_third_from_start", "quick"), ("c01_locate_backwards", "quick"), ("c01_locate_from_cache", "thorough"), ("c01_locate_eof_from_start", "quick"), ("c01_locate_eof_from_cache", "quick"), ("c01_locate_eof_backward_chain", "thorough")]:
    H("C01", "vk_fsop", n, tier=t, desc="find_data_on_disk: offset -> (block of chain[offset/512], byte offset, bytes available); cursor cache; on EndOfFile the cursor rests on the chain tail", bounds="concrete chain/cursor/offset", timeout=900, cost=2, mem_gb=16)

PROPS["C10"] = dict(bounds="(in progress)", outside="")
PROPS["C09"] = dict(bounds="(in progress)", outside="")
PROPS["C11"] = dict(bounds="(in progress)", outside="")
UW_CRASH = UW_ALLOC + UW_TRUNC + UW_DIR
_cr = "power cut after a symbolic number k of block writes of the call (writes >= k dropped): "
H("C10", "vk_fat", "c10_crash_alloc_extend16", tier="thorough", desc=_cr + "chain never leads to a free cluster; unrelated flushed file intact", bounds="FAT16, chain 3->2 extended, k<=6", unwindset=UW_CRASH, timeout=1500, cost=3, mem_gb=24)
H("C10", "vk_fat", "c10_crash_truncate16", tier="thorough", desc=_cr + "truncated chain never leads to a free cluster", bounds="FAT16, chain 3->5->2, k<=6", unwindset=UW_ALLOC + [("truncate_cluster_chain", r".", 4)] + UW_DIR, timeout=1500, cost=3, mem_gb=24)
H("C10", "vk_fat", "c10_crash_make_dir16", desc=_cr + "a visible sub-directory entry has an allocated, initialised cluster; other entries intact", bounds="FAT16 root, stale free cluster contents symbolic, k<=10", unwindset=UW_CRASH, timeout=1800, cost=4, mem_gb=24)
for n, t in [("c10_crash_alloc_extend16", "thorough"), ("c10_crash_truncate16", "thorough"), ("c10_crash_make_dir16", "quick")]:
    H("C09", "vk_fat", n, tier=t, desc=_cr + "FAT entry, directory entry and data of an unrelated flushed file are unchanged on the medium", bounds="see C10", unwindset=UW_CRASH, timeout=1800, cost=4, mem_gb=24)
H("C11", "vk_fat", "c11_cache_invalidated_on_failed_read", desc="BlockCache: failed (scribbling) read invalidates the cache tag; next read returns real contents", bounds="2 symbolic blocks", timeout=900, mem_gb=16)
H("C11", "vk_fat", "c11_find_fault_root16", desc="lookup in the FAT16 root whose device read fails: DeviceError; retried call without fault answers correctly", bounds="16 concrete entries, fault on call 0", unwindset=UW_DIR, timeout=900, cost=2, mem_gb=20)
for n, t in [("c11_iterate_fault_dir_block", "quick"), ("c11_iterate_fault_fat_read", "thorough")]:
    H("C11", "vk_fat", n, tier=t, desc="directory lookup / listing with a device read fault at a concrete call index: the fault is reported as DeviceError, never NotFound / a truncated Ok listing", bounds="FAT16 2-cluster sub-directory (32 concrete entries), fault on the directory block / on the FAT read between the clusters", unwindset=UW_DIR, timeout=3000, cost=2, mem_gb=30)
for n in ["c11_find_fault_second_cluster", "c11_iterate_no_fault", "c11_find_fault_dir_block", "c11_find_fault_fat_read"]:
    H("C11", "vk_fat", n, tier="thorough", desc="same, fault on the second cluster / no fault", bounds="same", unwindset=UW_DIR, timeout=900, cost=2, mem_gb=20)

for n, t in [("c09_crash_create_entry16", "thorough"), ("c09_crash_delete_entry16", "quick")]:
    for pr in ("C09", "C10"):
        H(pr, "vk_fat", n, tier=t, desc=_cr + "creating / deleting another file's entry in the directory block shared with a flushed file: that file's entry, FAT entry and data unchanged on the medium; other slots unchanged", bounds="FAT16 root, flushed file size/data symbolic, k<=3", unwindset=UW_DIR, timeout=1200, cost=3, mem_gb=24)

# ---------------------------------------------------------------------------
# final bounds / outside-the-claim texts (see DESIGN.md section 4)
# ---------------------------------------------------------------------------
_geo = "geometries G16a (FAT16, 1 FAT, 1 block/cluster, 4 clusters, 16 root entries) and G32a (FAT32, 2 FATs, 4 clusters); "
PROPS["C01"] = dict(
    bounds=_geo + "one read/write/locate call on a manager with 1 volume, 1 directory, 2 open files; file contents, payload (<=600 B) and directory block fully symbolic; chain (3->5->2, 5->3, 3->5), size, offset, cursor cache and length concrete per instance (start, block/cluster crossing, two crossings, clipped at EOF, at EOF, backwards seek, cursor behind, aligned full block, empty buffer; writes: middle, block-start partial, >=512 B ending mid-block)",
    outside="offsets/lengths outside the instance classes; files > 3 clusters; > 1 block per cluster; several volumes; embedded-io adapters; extending writes (thorough tier, do not finish - decided piecewise: find_data_on_disk EOF contract + alloc_cluster linking); histories by one-step argument",
    assumptions=["byte-array file model = concatenation of the chain's clusters (harness)", "pre-state: cursor cache either (0, first) or a true (offset, cluster) pair of the chain"])
PROPS["C02"] = dict(
    bounds="write_entry_to_disk (what flush/close write): directory block and entry fully symbolic (name, attributes, size, cluster < 2^16 / 2^28, timestamps), slot 0/15 (FAT16) and 7 (FAT32): all 512 bytes compared at concrete positions against the FAT spec layout",
    outside="end-to-end remount by this library and by an independent reader (composed from C15 layout + C06 reader + C01 read, not run); mtime = clock / archive bit after write (harness clock constant); create/mkdir/delete/truncate paths are C03/C07/C10's",
    assumptions=["FAT directory-slot layout = literal offsets in the harness (spec_slot_byte)"])
PROPS["C03"] = dict(
    bounds=_geo + "delete_directory_entry on a fully symbolic 16-slot FAT16 root; write_new_directory_entry on a root whose slots 0-3 and 15 have a symbolic first byte (free / deleted / live), symbolic attributes; chain conditions (old chain is a prefix, new clusters were free, long enough for the size, FAT frame) on the C01 write instances and C05 allocator instances",
    outside="a global WF(pre) => WF(post) over a whole symbolic volume is not encoded (symbolic chain topology makes every block index symbolic); make_dir only for crash behaviour (C10); directory growth; unique names / dot entries",
    assumptions=[])
PROPS["C04"] = dict(
    bounds="cluster_to_block for fully symbolic geometry (any partition offset/size, 1..128 blocks per cluster, any cluster count, FAT16/FAT32) under the mount invariant; update_fat on a fully symbolic FAT sector (entry 3; entry 255 thorough); region/frame assertions of the C01/C03/C05 harnesses on 9/10-block devices whose every block outside the volume is a guard",
    outside="multi-partition devices beyond the symbolic-geometry arithmetic; byte-level frame of extending writes (thorough, do not finish)",
    assumptions=["mount invariant: data area = first_data .. first_data + count*bpc inside the partition (established by C15)"])
PROPS["C05"] = dict(
    bounds=_geo + "FAT entry decoding for all 2^16 / 2^32 values; free-cluster search with 4 clusters + 2 slack FAT entries symbolic and concrete scan start (2, 4 / 5 dirty); alloc_cluster on 13 concrete (free map, prev, hint, zero) instances incl. last free cluster, stale hints (slack, beyond volume), used slack",
    outside="delete/truncate returning clusters (delete_file_in_dir does not free the chain - seen by reading, no check; truncate harness does not finish); write() at disk full (thorough, does not finish); FAT sectors beyond the first; fill/refill cycles by argument only",
    assumptions=[])
PROPS["C07"] = dict(
    bounds=_geo + "open_file_in_dir for 30 (target, mode) pairs - targets: existing file, read-only-attribute file, directory, already-open file, missing name - 11 in the quick tier; write on a ReadOnly handle; names given as ShortFileName",
    outside="truncating / creating pairs are thorough (40 GB); delete_file_in_dir and open_dir refusals; invalid 8.3 strings (parser is C18)",
    assumptions=["documented mode matrix written in the harness (open_case)"])
PROPS["C09"] = dict(
    bounds="power cut after a symbolic number k of block writes (SymDisk persisted image): creating / deleting another file's directory entry in the block shared with a flushed file, and mkdir next to it; flushed file's slot, FAT entry and data compared byte by byte",
    outside="crash inside extending writes, truncate-open, directory growth, close_volume (thorough harnesses do not finish); histories by one-step argument; block writes assumed atomic and ordered",
    assumptions=["block writes atomic and ordered (as the property states)"])
PROPS["C10"] = dict(
    bounds="same crash device; make_dir in a FAT16 root with stale free-cluster contents symbolic, k <= 10; create/delete entry, k <= 3",
    outside="as C09; 'medium mounts' is not re-run after the cut", assumptions=["block writes atomic and ordered"])
PROPS["C11"] = dict(
    bounds="BlockCache with a failing, scribbling read; lookup in a FAT16 root whose read fails (+ retried call); listing of a 2-cluster FAT16 sub-directory with the fault on the directory block / on the FAT read between the clusters",
    outside="faults inside read/write/create/mkdir/flush, multi-fault sequences, 'handles remain usable', 'no duplicate name after a failed create', lookup faults over 32 entries (thorough, do not finish)",
    assumptions=[])
PROPS["C16"] = dict(
    bounds="update_fat on a 2-FAT FAT32 volume with both FAT sectors fully symbolic (entry 5; 127 thorough): copies identical afterwards, reserved nibble preserved; update_info_sector with info sector and in-memory record fully symbolic",
    outside="free-count arithmetic of truncate_cluster_chain (thorough, does not finish) and of alloc_cluster (only totality); 'since mount' accounting over histories",
    assumptions=[])

_stubfat = ["-Z", "stubbing"]
for pr in ("C16", "C10"):
    H(pr, "vk_fat", "c16_truncate_any_chain_abstract_fat", desc="truncate_cluster_chain over an abstract FAT (next_cluster/update_fat stubbed by a ghost FAT whose contract the FAT-codec harnesses establish): any well-formed chain of 1..4 clusters, any other entries: kept cluster EOC, tail freed, frame, free count += clusters freed, hint sane, and every prefix of the FAT update sequence leaves the chain sound", bounds="FAT of 4 clusters fully symbolic, chain topology symbolic, record symbolic, crash index symbolic", kani_args=_stubfat, timeout=900, cost=2, mem_gb=16)

H("C10", "vk_fat", "c10_alloc_update_order", desc="alloc_cluster(prev): FAT update order (update_fat stubbed + logged): new cluster marked EOC before the tail is linked; every prefix leaves the chain sound", bounds="FAT16 chain 3->2, one free cluster, crash index symbolic", kani_args=_stubfat, unwindset=UW_ALLOC, timeout=900, cost=2, mem_gb=16)
H("C09", "vk_fat", "c10_alloc_update_order", desc="same harness: a flushed file's chain is never left pointing at a free cluster by a later allocation", bounds="see C10", kani_args=_stubfat, unwindset=UW_ALLOC, timeout=900, cost=2, mem_gb=16)

for pr in ("C13", "C14"):
    H(pr, "vk_sd", "c13_failed_init_at_cmd58_stays_uninit", desc="identification failing at CMD58 (any non-zero R1): error reported, card stays marked uninitialised", bounds="SDHC, CRC on/off symbolic, R1 error bits symbolic", unwindset=UW_SD, timeout=900, cost=2)
H("C13", "vk_sd", "c13_read2_crc_mismatch_first_block_fixed_data", desc="2-block read, CRC on: mismatch in the first block fails the call", bounds="card memory concrete (model default), any non-zero 16-bit CRC corruption of the first block", unwindset=UW_SD, timeout=1800, cost=3, mem_gb=20)
H("C13", "vk_sd", "c13_read2_crc_mismatch_first_block", tier="thorough", desc="2-block read, CRC on: mismatch in the first block fails the call", bounds="card memory symbolic, any non-zero CRC corruption", unwindset=UW_SD, timeout=3600, cost=5, mem_gb=30)
for n in ["c14_acmd_waits_for_busy", "c14_command_waits_for_busy"]:
    H("C14", "vk_sd", n, desc="a command (and the CMD55 prefix of an application command) issued while the card is still busy waits for the busy period to end", bounds="busy 1-2 bytes", unwindset=UW_SD, timeout=900, cost=2)

for n, t in [("c07_delete_open_file_refused", "thorough"), ("c07_delete_directory_refused", "thorough"), ("c07_delete_closed_file", "thorough"), ("c07_delete_missing", "thorough")]:
    H("C07", "vk_fsop", n, tier=t, desc="delete_file_in_dir: closed file deleted (slot marked, frame); directory -> DeleteDirAsFile; open file (in-memory entry already differs from the medium) -> FileAlreadyOpen; missing -> NotFound; refusals write nothing", bounds="FAT16 root with file / read-only file / directory / open file", unwindset=UW_OPEN6, timeout=1500, cost=3, mem_gb=24)
H("C09", "vk_fsop", "c07_delete_open_file_refused", tier="thorough", desc="an open (written, unflushed) file cannot be deleted - its slot is not handed to another file whose flushed entry a later close of the stale handle would overwrite", bounds="see C07", unwindset=UW_OPEN6, timeout=1500, cost=3, mem_gb=24)
H("C09", "vk_fat", "c05_alloc16_a_3e_p2_zero", desc="directory growth (alloc_cluster zero=true) writes only the FAT and the new cluster: the cluster that physically follows it (a flushed file's data) is untouched", bounds="see C05", unwindset=UW_ALLOC, timeout=900, cost=2, mem_gb=16)
H("C04", "vk_fat", "c05_alloc16_a_3e_p2_zero", desc="alloc_cluster(zero=true) writes only the FAT sector and the new cluster's block", bounds="see C05", unwindset=UW_ALLOC, timeout=900, cost=2, mem_gb=16)
H("C12", "vk_sd", "c12_command_max_response_delay", desc="a command whose response arrives after the maximum legal delay N_CR = 8 bytes succeeds", bounds="response delay 8", unwindset=[("sdcard/mod.rs", r"^\\s*loop \\{", 12)], timeout=900, cost=2)

for pr in ("C07", "C09"):
    H(pr, "vk_fsop", "c07_file_is_open_identity", desc="file_is_open == (same volume and same directory slot), whatever the other fields of the on-disk entry: an open, written, unflushed file is still recognised (cannot be opened twice / deleted, its slot is not handed out)", bounds="on-disk entry fully symbolic", timeout=600, cost=1)

for n in ["c06_walk_find_fat16_any_chain", "c06_walk_find_fat32_any_chain"]:
    for pr in ("C06", "C03"):
        H(pr, "vk_fat", n, desc="find_directory_entry's walk over an abstract directory (per-block lookup and next_cluster stubbed; their contracts are c06_find_root16 and c05_next_cluster_*): visits exactly the chain's blocks in order (1-2 blocks per cluster), stops at the first hit or error and returns it, NotFound after the last block", bounds="chain of 1..3 clusters with symbolic topology over 4 clusters, symbolic per-block script", kani_args=_stubfat, timeout=900, cost=2, mem_gb=16)

UW_LFN = [("iterate_fat16", r"chunks_exact", 8), ("iterate_fat16", r".", 3)]
H("C17", "vk_fat", "c17_dir_lfn_runs", desc="iterate_dir_lfn over 5 fully symbolic directory slots (LfnBuffer ops stubbed): never crashes; a long name is reported for the k-th entry iff a complete, descending, 0x40-started fragment run with matching checksum directly precedes it", bounds="FAT16 root, slots 0-4 fully symbolic, k symbolic", kani_args=_stubfat, unwindset=UW_LFN, timeout=2400, cost=4, mem_gb=30)

_gw = "VolumeManager::write extending the file, over the ghost FAT (next_cluster and alloc_cluster stubbed; contracts: c05_next_cluster_*, c05_alloc16_*): "
for n, t, pr in [("c01_gwrite_extend_one", "thorough", "C01"), ("c01_gwrite_extend_stale_cursor", "thorough", "C01"), ("c01_gwrite_first_cluster", "thorough", "C01"), ("c01_gwrite_extend_two", "thorough", "C01"),
                 ("c05_gwrite_last_free_cluster", "thorough", "C05"), ("c05_gwrite_disk_full_partial", "thorough", "C05"), ("c05_gwrite_disk_full_none", "thorough", "C05")]:
    H(pr, "vk_fsop", n, tier=t, desc=_gw + _wr + "; the allocator is asked to link behind the chain's tail; DiskFull exactly when no cluster is free, with the bytes that fit written", bounds="payload and old contents symbolic; chain/size/offset/cursor/length/free map concrete per instance", kani_args=["-Z", "stubbing"], unwindset=UW_FILE, timeout=2400, cost=4, mem_gb=30)
H("C03", "vk_fsop", "c01_gwrite_extend_stale_cursor", tier="thorough", desc=_gw + "chain stays well formed when the cursor cache is several clusters behind the write position", bounds="see C01", kani_args=["-Z", "stubbing"], unwindset=UW_FILE, timeout=2400, cost=4, mem_gb=30)

H("C05", "vk_fsop", "c05_delete_releases_clusters", desc="delete_file_in_dir of a closed 2-cluster file (directory functions scripted, ghost FAT): afterwards its clusters are free", bounds="chain 3->5, other clusters used", kani_args=["-Z", "stubbing"], timeout=900, cost=2, mem_gb=16)

H("C05", "vk_fat", "c05_free_chain_abstract_fat", desc="free_cluster_chain (delete) over the ghost FAT: any well-formed chain of 1..4 clusters freed entirely, frame, free count += length; unallocated / out-of-range start is a no-op", bounds="FAT of 4 clusters and chain topology symbolic, record symbolic", kani_args=_stubfat, timeout=900, cost=2, mem_gb=16)
H("C16", "vk_fat", "c05_free_chain_abstract_fat", desc="free-space record arithmetic of free_cluster_chain (delete)", bounds="see C05", kani_args=_stubfat, timeout=900, cost=2, mem_gb=16)

for pr in ("C03", "C02", "C04"):
    H(pr, "vk_fat", "c03_make_dir_root16", tier="thorough", desc="make_dir in a FAT16 root: parent entry with a previously free, now end-of-chain cluster; '.' -> itself, '..' -> 0 (root), rest of the cluster zero; other entries, FAT entries and data clusters (incl. the one physically after the new directory) unchanged", bounds="other files' data and the stale free cluster fully symbolic", unwindset=UW_CRASH, timeout=1500, cost=3, mem_gb=24)
H("C07", "vk_vm", "c08_limits_full_tables", desc="an open refused because the table is full happens before any side effect: nothing read or written, tables unchanged (all modes)", bounds="see C08", timeout=900)

UW_LOCK = [("iterate_fat16", r"chunks_exact", 4), ("iterate_fat16", r".", 3)]
for n, t in [("c08_lock_file_queries", "quick"), ("c08_lock_close_flush", "quick"), ("c08_lock_read_write", "quick"), ("c08_lock_dir_volume_handles", "quick"),
             ("c08_lock_open_volume", "quick"), ("c08_lock_dir_listing", "quick"), ("c08_lock_dir_mutation", "quick"), ("c08_lock_make_dir", "quick")]:
    H("C08", "vk_vm", n, tier=t, desc="result-returning methods called from inside an iterate_dir callback fail with LockError and change nothing", bounds="one-entry FAT16 root; methods: see harness name", unwindset=UW_LOCK, timeout=1800, cost=3, mem_gb=24)

# ---------------------------------------------------------------------------
# final texts, second pass (harnesses over stubbed internal interfaces added)
# ---------------------------------------------------------------------------
_st = " Harnesses marked 'abstract' replace internal storage functions by #[kani::stub] ghost models (DESIGN.md 2.2); the stub contracts are decided by the named storage harnesses and the composition is an argument."
PROPS["C03"]["bounds"] += "; abstract: find_directory_entry's walk over any chain of 1..3 clusters (1-2 blocks/cluster) with a symbolic per-block script (both FAT types); make_dir functional post-state (thorough)"
PROPS["C03"]["outside"] += ";" + _st
PROPS["C05"]["bounds"] += "; abstract (ghost FAT): free_cluster_chain for every well-formed chain over 4 clusters; delete_file_in_dir releases the clusters (directory functions scripted)"
PROPS["C05"]["outside"] = "write() at disk full and fill/refill cycles through the public API (extending-write harnesses are thorough and do not finish: the Ok/EndOfFile merge in write() makes the copy length symbolic); FAT sectors beyond the first;" + _st
PROPS["C06"]["bounds"] += "; abstract: the cluster/block walk of find_directory_entry for any chain of 1..3 clusters, 1-2 blocks per cluster, both FAT types, symbolic per-block answers (hit / miss / error)"
PROPS["C06"]["outside"] += ";" + _st
PROPS["C08"]["bounds"] += "; lock: all 22 result-returning public methods called from an iterate_dir callback (8 groups)"
PROPS["C08"]["outside"] = PROPS["C08"]["outside"].replace("; the re-entrancy lock clause is not decided (every call inside the callback re-explores the whole API body; see DESIGN)", "")
PROPS["C10"]["bounds"] += "; abstract (ghost FAT + update log): every prefix of truncate_cluster_chain's FAT updates for every well-formed chain; alloc_cluster's update order (new cluster EOC before the tail is linked)"
PROPS["C10"]["outside"] += ";" + _st
PROPS["C09"]["bounds"] += "; alloc_cluster's FAT update order; file_is_open identifies an open file by volume + slot whatever its unflushed in-memory entry holds; directory growth (alloc zero=true) touches only the FAT and the new cluster"
PROPS["C16"]["bounds"] += "; abstract (ghost FAT): free-space record after truncate_cluster_chain and free_cluster_chain for every well-formed chain and every (stale, out-of-range) record value"
PROPS["C16"]["outside"] = "record arithmetic of alloc_cluster (saturating decrement; only totality of the alloc instances); 'since mount' accounting over histories;" + _st
PROPS["C17"]["bounds"] += "; listing level (abstract: LfnBuffer ops stubbed): iterate_dir_lfn over 5 fully symbolic directory slots against a spec-side run tracker (complete, descending, 0x40-started run with matching checksum directly before the entry)"
PROPS["C17"]["outside"] = PROPS["C17"]["outside"] + "; directories with more than 5 non-empty slots at the listing level;" + _st
PROPS["C07"]["bounds"] += "; file_is_open identity on a fully symbolic on-disk entry; table-full refusals write nothing and leave the tables unchanged (C08 harness and c07_full_table_refused_*); read-only-attribute file in the truncating / create-or modes and table-full refusals additionally with truncate_cluster_chain / write_new_directory_entry / write_entry_to_disk (and, for table-full, find_directory_entry) replaced by counting stubs that must not be reached"
PROPS["C12"]["bounds"] += "; response delay of exactly N_CR = 8 bytes"
PROPS["C13"]["bounds"] += "; identification failing at CMD58 with any R1 error bits; 2-block read with a CRC mismatch in the first block (any non-zero xor; card memory concrete in the quick tier, symbolic in the thorough tier)"
PROPS["C14"]["bounds"] += "; commands (and the CMD55 prefix) issued while the card is still busy from a previous operation"

# ---------------------------------------------------------------------------
# cross-registrations: harnesses whose assertions also decide clauses of other properties
# ---------------------------------------------------------------------------
H("C02", "vk_fsop", "c01_write_cross_end_midblock", mem_est=12, desc="write marks the file dirty (flush/close then rewrite the entry), sets mtime = clock, archive bit, keeps ctime", bounds="see C01", kani_args=["-Z", "stubbing"], unwindset=UW_ALLOC + UW_FILE, timeout=2400, cost=4, mem_gb=30)
for pr in ("C02", "C04"):
    H(pr, "vk_fat", "c10_crash_make_dir16", desc="mkdir writes only the parent directory block, the FAT and the new directory's cluster: the data cluster physically after it and other files' clusters are never written; other directory entries unchanged", bounds="see C10", unwindset=UW_CRASH, timeout=1800, cost=4, mem_gb=24)
H("C03", "vk_fsop", "c01_locate_eof_from_start", desc="after EndOfFile the cursor rests on the chain's last cluster, so write() links the newly allocated cluster behind the tail (chain stays a single well-formed chain)", bounds="see C01", timeout=900, cost=2, mem_gb=16)
H("C03", "vk_fsop", "c01_locate_eof_from_cache", desc="same, starting from a cached cursor", bounds="see C01", timeout=900, cost=2, mem_gb=16)
for n in ["c01_write_cross_end_midblock", "c01_write_cross_end_in_last_block"]:
    H("C04", "vk_fsop", n, mem_est=12, desc="a write changes only the bytes of the range it was asked to write: the rest of a partially written block is preserved (read-modify-write), other clusters and the directory are not written", bounds="see C01", kani_args=["-Z", "stubbing"], unwindset=UW_ALLOC + UW_FILE, timeout=2400, cost=4, mem_gb=30)
H("C04", "vk_fat", "c03_new_entry_root16", desc="a full fixed-size FAT16 root reports NotEnoughSpace and writes nothing - in particular not into the first data cluster behind the root region", bounds="see C03", unwindset=UW_DIR, timeout=2400, cost=4, mem_gb=30)
H("C16", "vk_fat", "c05_alloc16_a_38_p3_h4", desc="taking the last free cluster leaves the next-free hint unknown or inside the volume", bounds="see C05", unwindset=UW_ALLOC, timeout=600, cost=2, mem_gb=16)
H("C16", "vk_vm", "c15_mount_correct_p0", desc="the second FAT is located at first FAT + FATSz with the specification's FATSz rule (16-bit field if non-zero), so FAT updates mirror into the real second copy", bounds="see C15", timeout=1800, cost=3)

H("C06", "vk_codec", "c18_direntry_roundtrip_fat32", desc="an entry with the directory attribute and cluster 0 ('..' of a first-level directory) decodes to the root directory on FAT32, so open_dir('..') leads to the directory the entry designates", bounds="see C18")
H("C06", "vk_codec", "c18_direntry_roundtrip_fat16", desc="same on FAT16", bounds="see C18")

for n, t in [("c11_read_fault_fat", "thorough"), ("c11_read_fault_second_block", "quick"), ("c11_read_fault_first_block", "thorough")]:
    H("C11", "vk_fsop", n, tier=t, desc="VolumeManager::read across a cluster boundary with one failing, scribbling device call (data block / FAT sector / second data block): DeviceError reported; handle still usable; after seeking back the retried read returns the file's bytes", bounds="file contents fully symbolic; chain 3->5->2, offset 510, 4 bytes; fault index concrete per instance", unwindset=UW_FILE, timeout=1200, cost=3, mem_gb=24)
PROPS["C11"]["bounds"] += "; VolumeManager::read across a cluster boundary with the fault on the data block / the FAT sector / the second data block, then seek back and retry"

for n in ["c07_full_table_refused_create_cut", "c07_full_table_refused_truncate_cut", "c07_full_table_refused_append_cut"]:
    H("C07", "vk_vm", n, desc="open_file_in_dir with the open-file table full (name missing + create / name present + truncate / + append): TooManyOpenFiles, state unchanged, nothing written, and neither entry creation, truncation nor entry rewrite is reached (these and the lookup replaced by stubs that succeed)", bounds="one volume, one directory, two open files; handle values symbolic; find_directory_entry / write_new_directory_entry / truncate_cluster_chain / write_entry_to_disk stubbed", kani_args=["-Z", "stubbing"], unwindset=UW_OPEN6, timeout=1200, cost=2, mem_gb=20)
for n in ["c07_full_table_refused_create", "c07_full_table_refused_truncate"]:
    H("C07", "vk_vm", n, desc="open_file_in_dir with the open-file table full (create / truncate mode): an error (TooManyOpenFiles if the always-failing device was not read), nothing written, state unchanged", bounds="one volume, one directory, two open files; handle values symbolic", unwindset=UW_OPEN6, timeout=1200, cost=2, mem_gb=20)
