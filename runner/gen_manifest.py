#!/usr/bin/env python3
"""Regenerate /verif/MANIFEST.json from the registry (claimed = has harnesses)."""
import json, os, sys
HERE = os.path.dirname(os.path.abspath(__file__))
sys.path.insert(0, HERE)
import registry

VERIF = os.path.dirname(HERE)
props = [json.loads(l) for l in open(os.path.join(VERIF, "properties.jsonl"))]
checks, na = [], []
for p in props:
    pid = p["id"]
    info = registry.PROPS.get(pid, {})
    hs = [h for h in registry.HARNESSES if h["prop"] == pid]
    if not hs or info.get("not_applicable"):
        na.append({"property_id": pid, "reason": info.get("not_applicable") or "no solver-based check built yet for this property"})
        continue
    checks.append({
        "property_id": pid,
        "quick_cmd": "./check %s quick" % pid,
        "thorough_cmd": "./check %s thorough" % pid,
        "evidence_file": "/verif/evidence/%s.json" % pid,
        "replay_cmd_template": "cat {path}",
        "engine": "kani-cbmc",
        "level_claimed": {
            "category": "model_checking",
            "text": info.get("level_text") or ("Bounded model checking of the real compiled code (Kani/CBMC): each harness is one SAT query over all values of "
                     "its symbolic inputs within the stated bounds; unsat = holds for every such value. Bounds: " + info.get("bounds", "")),
            "design_ref": "DESIGN.md section 4, " + pid,
        },
        "level_note": "Trusted: Kani MIR->goto translation, CBMC symex/bit-blasting, cadical; harness-side oracles. "
                      "Outside the claim: " + info.get("outside", ""),
        "technique": info.get("technique", "bounded model checking of the compiled Rust code with Kani/CBMC (SAT back end cadical): one-step #[kani::proof] harnesses over symbolic state, per-loop unwind bounds with unwinding assertions, kani::cover vacuity witnesses; counterexamples replayed natively via Kani concrete playback, or re-decided with a second SAT solver (kissat) where the trace is too large"),
    })
m = {
    "version": 1,
    "setup_cmd": "true",
    "hooks": {
        "guard": "kani",
        "enable": "none needed: checks copy /repo's working tree to a scratch dir, append `#[cfg(kani)] #[path=..] mod` lines (append-only overlay) and run `cargo kani --no-default-features`; cfg(kani) is set by cargo-kani only",
        "baseline_off_cmd": "cd /repo && cargo test --workspace --no-fail-fast --offline",
        "source_commits": [],
        "add_only": True,
    },
    "engines": [{
        "name": "kani-cbmc", "path": "/verif/runner/check.py",
        "serves_properties": [c["property_id"] for c in checks],
        "kind_free_text": "Kani 0.68 / CBMC 6.11 bounded model checker (SAT: cadical) over in-crate harnesses in /verif/harness, overlaid on a scratch copy of /repo's current working tree on every run",
    }],
    "checks": checks,
    "not_applicable": na,
    "notes": "exit 0 = held (or only KNOWN-FINDING lines), 1 = VIOLATION (replayed natively), 2 = inconclusive (timeout/OOM/unwinding/vacuity/build).",
}
json.dump(m, open(os.path.join(VERIF, "MANIFEST.json"), "w"), indent=1)
print("claimed:", [c["property_id"] for c in checks], "n/a:", [x["property_id"] for x in na])
