#!/usr/bin/env python3
"""Runner for the Kani/CBMC checks of /verif (see DESIGN.md section 2).

usage: check.py <PROPERTY_ID> [--tier quick|thorough] [--only SUBSTR] [--keep] [--jobs N]

exit 0  every harness of the property/tier verified (all assertions hold, all
        unwinding assertions hold, all cover goals reached) or every failure is
        a listed known finding (printed as KNOWN-FINDING lines)
exit 1  a failure that is not listed and that replays against the real code:
        prints `VIOLATION property=<id> replay=<path>`
exit 2  machinery could not decide (build error, timeout, OOM, unwinding bound
        too small, vacuous harness, counterexample that does not replay)
"""
import argparse
import concurrent.futures as cf
import json
import os
import re
import shutil
import signal
import subprocess
import sys
import time

HERE = os.path.dirname(os.path.abspath(__file__))
VERIF = os.path.dirname(HERE)
sys.path.insert(0, HERE)
import registry  # noqa: E402

REPO = os.environ.get("VERIF_REPO", "/repo")
SCRATCH_ROOT = os.environ.get("VERIF_SCRATCH", "/var/tmp/verif-scratch")
ENV = dict(os.environ)
ENV["CARGO_NET_OFFLINE"] = "true"
ENV["RUSTFLAGS"] = (ENV.get("RUSTFLAGS", "") + " -A warnings").strip()
ENV.pop("RUSTUP_TOOLCHAIN", None)


def log(*a):
    print(*a, flush=True)


def sh(cmd, cwd=None, timeout=None, mem_gb=None, outfile=None, env_extra=None):
    """Run cmd (list) in its own process group; returns (rc, output, timed_out)."""
    if mem_gb:
        kb = int(mem_gb * 1024 * 1024)
        cmd = ["bash", "-c", "ulimit -v %d; exec \"$@\"" % kb, "x"] + cmd
    t0 = time.time()
    env = ENV
    if env_extra:
        env = dict(ENV)
        env.update(env_extra)
    with open(outfile, "w") if outfile else open(os.devnull, "w") as sink:
        p = subprocess.Popen(cmd, cwd=cwd, env=env, stdout=subprocess.PIPE if not outfile else sink,
                             stderr=subprocess.STDOUT, text=True, start_new_session=True)
        try:
            out, _ = p.communicate(timeout=timeout)
            to = False
        except subprocess.TimeoutExpired:
            try:
                os.killpg(p.pid, signal.SIGKILL)
            except ProcessLookupError:
                pass
            out, _ = p.communicate()
            to = True
    if outfile:
        out = open(outfile, errors="replace").read()
    return p.returncode, out or "", to, time.time() - t0


# --------------------------------------------------------------------------
# scratch copy + overlay
# --------------------------------------------------------------------------

def make_scratch(tag):
    os.makedirs(SCRATCH_ROOT, exist_ok=True)
    d = os.path.join(SCRATCH_ROOT, "%s-%d" % (tag, os.getpid()))
    if os.path.exists(d):
        shutil.rmtree(d)
    os.makedirs(d)
    src = os.path.join(d, "src")
    subprocess.check_call(["rsync", "-a", "--exclude", "/target", "--exclude", ".git", REPO + "/", src + "/"])
    # harness sources are copied next to the crate (so playback can edit them)
    hdst = os.path.join(src, "src", "vk")
    os.makedirs(hdst)
    for f in os.listdir(os.path.join(VERIF, "harness")):
        if f.endswith(".rs"):
            shutil.copy(os.path.join(VERIF, "harness", f), os.path.join(hdst, f))
    # append-only overlay: one cfg(kani) mod line per harness module
    for mod, target in registry.MODULES.items():
        tf = os.path.join(src, "src", target)
        if not os.path.exists(tf):
            raise SystemExit("overlay target missing in repo: %s" % target)
        with open(tf, "a") as fh:
            fh.write('\n#[cfg(kani)] #[path = "%s/%s.rs"] pub(crate) mod %s;\n' % (hdst, mod, mod))
    # empty [workspace] so the copy is not absorbed by a parent workspace
    ct = os.path.join(src, "Cargo.toml")
    txt = open(ct).read()
    if "[workspace]" not in txt:
        with open(ct, "a") as fh:
            fh.write("\n[workspace]\n")
    return d


def kani_cmd(h, target_dir, extra=()):
    cmd = ["cargo", "kani", "--no-default-features", "--target-dir", target_dir,
           "--harness", registry.full_name(h), "--exact"]
    cmd += list(h.get("kani_args", []))
    cmd += list(extra)
    return cmd


# --------------------------------------------------------------------------
# loops / unwindset
# --------------------------------------------------------------------------

def find_goto(target_dir, h):
    tail = h["name"]
    best = None
    for root, _, files in os.walk(os.path.join(target_dir, "kani")):
        for f in files:
            if f.endswith(".out") and tail in f and (f.endswith(tail + ".out") or f.endswith(tail + ".symtab.out")):
                p = os.path.join(root, f)
                if best is None or (not f.endswith(".symtab.out")):
                    best = p
    return best


LOOP_RE = re.compile(r"^Loop (\S+):\s*\n\s*file (\S+) line (\d+)(?: column \d+)? function (.*)$", re.M)


def compute_unwindset(h, srcdir, target_dir):
    """Map every loop of the goto binary to a bound via the harness's
    source-text rules: rules = [(file_regex, line_text_regex, bound)]."""
    rules = h.get("unwindset")
    if not rules:
        return None, []
    # `--only-codegen` leaves only the raw symtab (cbmc --show-loops can crash on it); running
    # cargo kani with `--cbmc-args --show-loops` makes kani-driver produce the final goto
    # binary (its own output parser then gives up, which is ignored here)
    rc, out, to, _ = sh(kani_cmd(h, target_dir, ["-Z", "unstable-options"]) + ["--cbmc-args", "--show-loops"], cwd=srcdir, timeout=900)
    g = find_goto(target_dir, h)
    if g is None:
        return None, ["no goto binary found for show-loops (rc=%s)" % rc]
    rc, out, to, _ = sh(["cbmc", "--show-loops", g], timeout=300)
    pairs, notes = [], []
    for m in LOOP_RE.finditer(out):
        loop_id, f, line, fn = m.group(1), m.group(2), int(m.group(3)), m.group(4)
        text = ""
        for base in (srcdir, "/"):
            p = os.path.normpath(os.path.join(base, f))
            if os.path.exists(p):
                try:
                    text = open(p, errors="replace").read().splitlines()[line - 1]
                except IndexError:
                    text = ""
                break
        for (fre, tre, bound) in rules:
            if re.search(fre, f + " " + fn) and re.search(tre, text):
                pairs.append("%s:%d" % (loop_id, bound))
                notes.append("%s:%d (%s:%d `%s`)" % (loop_id.split(".")[-1], bound, os.path.basename(f), line, text.strip()[:60]))
                break
    if not pairs:
        if "Loop " in out:
            return "", ["no loop of this harness matches an unwindset rule (harness default bound applies)"]
        return None, ["cbmc --show-loops produced no loop list"]
    return ",".join(pairs), notes


# --------------------------------------------------------------------------
# output parsing
# --------------------------------------------------------------------------

CHECK_RE = re.compile(
    r"^Check (\d+): ([^\n]+)\n\t - Status: (\w+)\n\t - Description: \"(.*?)\"(?:\n\t - Location: ([^\n]*))?$", re.M | re.S)


def parse_kani(out):
    r = {"checks": 0, "failed": [], "covers_total": 0, "covers_sat": 0, "covers_unsat": [],
         "unwind_fail": [], "functions": set(), "undetermined": 0}
    for m in CHECK_RE.finditer(out):
        num, name, status, desc, loc = m.groups()
        desc = desc.replace("\n", " ")
        loc = (loc or "").split("\n")[0]
        fn = loc.split(" in function ")[-1] if " in function " in loc else ""
        f = loc.split(":")[0]
        if f.startswith("src/") and not f.startswith("src/vk/") and fn:
            r["functions"].add(fn)
        if ".cover." in name or status in ("SATISFIED", "UNSATISFIABLE"):
            r["covers_total"] += 1
            if status == "SATISFIED":
                r["covers_sat"] += 1
            else:
                r["covers_unsat"].append("%s [%s] @ %s" % (desc, status, loc))
            continue
        r["checks"] += 1
        if status == "FAILURE":
            item = {"check": name, "desc": desc, "loc": loc}
            if "unwinding assertion" in desc:
                r["unwind_fail"].append(item)
            else:
                r["failed"].append(item)
        elif status == "UNDETERMINED":
            r["undetermined"] += 1
    m = re.search(r"VERIFICATION:- (\w+)", out)
    r["verdict"] = m.group(1) if m else "NONE"
    m = re.search(r"Verification Time: ([0-9.]+)s", out)
    r["verif_time"] = float(m.group(1)) if m else None
    r["symex_s"] = sum(float(x) for x in re.findall(r"Runtime Symex: ([0-9.e+-]+)s", out))
    r["solver_s"] = sum(float(x) for x in re.findall(r"Runtime decision procedure: ([0-9.e+-]+)s", out))
    m = re.findall(r"(\d+) variables, (\d+) clauses", out)
    r["sat_vars"] = max([int(a) for a, _ in m], default=0)
    r["sat_clauses"] = max([int(b) for _, b in m], default=0)
    r["sat_queries"] = len(re.findall(r"Runtime Solver:", out))
    m = re.search(r"size of program expression: (\d+) steps", out)
    r["ssa_steps"] = int(m.group(1)) if m else 0
    r["status_error"] = ("Status: ERROR" in out) or ("CBMC failed" in out) or ("error: " in out and r["verdict"] == "NONE")
    r["functions"] = sorted(r["functions"])
    return r


# --------------------------------------------------------------------------
# known findings
# --------------------------------------------------------------------------

def load_known():
    p = os.path.join(VERIF, "known_findings.json")
    if not os.path.exists(p):
        return []
    return json.load(open(p)).get("findings", [])


def match_known(known, prop, hname, item):
    for k in known:
        if k.get("status") != "open":
            continue  # "fixed" entries suppress nothing
        if k["property"] != prop:
            continue
        if not re.search(k["harness"], hname):
            continue
        if k["check"] in item["desc"] or re.search(k["check"], item["desc"] + " @ " + item["loc"]):
            return k
    return None


# --------------------------------------------------------------------------
# replay
# --------------------------------------------------------------------------

import threading
REPLAY_LOCK = threading.Lock()


def replay(h, scratch, target_dir, prop):
    if os.environ.get("VERIF_NO_REPLAY"):
        # used only by runner/mutants.py (detection matrix): report on the solver verdict
        rdir = os.path.join(VERIF, "replays", prop)
        os.makedirs(rdir, exist_ok=True)
        rpath = os.path.join(rdir, h["name"] + ".rs")
        with open(rpath, "w") as fh:
            fh.write("// replay skipped (VERIF_NO_REPLAY): solver verdict only\n")
        return True, rpath, ["replay skipped (VERIF_NO_REPLAY)"]
    # playback keeps the full trace in memory (tens of GB for harnesses with long
    # unwound loops): one at a time
    with REPLAY_LOCK:
        return _replay(h, scratch, target_dir, prop)


def _replay(h, scratch, target_dir, prop):
    """Re-run the failing harness with concrete playback (print mode), append
    the generated unit tests to the scratch copy of the harness module and run
    them natively (dev profile = what Kani models, and release).  Returns
    (reproduced: bool|None, replay_path, notes)."""
    srcdir = os.path.join(scratch, "src")
    notes = []
    extra = ["-Z", "concrete-playback", "--concrete-playback=print"]
    if h.get("_cbmc_tail"):
        extra += ["-Z", "unstable-options"]
    cmd = kani_cmd(h, target_dir, extra) + h.get("_cbmc_tail", [])
    if h.get("heavy") or h["module"] in registry.HEAVY_MODULES:
        rc, out, to = 0, "", False   # block-image harness: Kani's trace extraction is known not to finish
    else:
        rc, out, to, _ = sh(cmd, cwd=srcdir, timeout=min(900, h.get("timeout", 900)), mem_gb=40)
    os.makedirs(os.path.join(VERIF, "replays", prop), exist_ok=True)
    with open(os.path.join(VERIF, "replays", prop, h["name"] + ".playback.log"), "w") as fh:
        fh.write("rc=%s timeout=%s\n" % (rc, to) + out[-30000:])
    blocks = re.findall(r"```\n(///.*?#\[test\]\nfn kani_concrete_playback_.*?\n\})\n```", out, re.S)
    # tests are also generated for satisfied cover goals: keep only those of failed checks
    blocks = [b for b in blocks if "Check for `cover`" not in b]
    # de-duplicate by test name
    seen, uniq = set(), []
    for b in blocks:
        n = re.search(r"fn (kani_concrete_playback_\w+)", b).group(1)
        if n not in seen:
            seen.add(n)
            uniq.append(b)
    blocks = uniq[:8]
    rdir = os.path.join(VERIF, "replays", prop)
    os.makedirs(rdir, exist_ok=True)
    rpath = os.path.join(rdir, h["name"] + ".rs")
    if not blocks:
        # Kani's trace extraction did not finish (for harnesses over block images the JSON
        # trace exhausts memory).  Fall back to an independent second decision of the
        # same query with a different SAT back end; the counterexample is then
        # reported on the agreement of two solver verdicts, without concrete inputs.
        notes.append("concrete playback produced no test (trace too large)")
        cmd2 = kani_cmd(h, target_dir, (["-Z", "unstable-options"] if h.get("_cbmc_tail") else []) + ["--solver", "kissat"]) + h.get("_cbmc_tail", [])
        rc2, out2, to2, _ = sh(cmd2, cwd=srcdir, timeout=h.get("timeout", 900) * 3, mem_gb=h.get("mem_gb", 12) * 2)
        r2 = parse_kani(out2)
        first = set(h.get("_failed_descs", []))
        second = set(i["desc"] for i in r2["failed"])
        with open(rpath, "w") as fh:
            fh.write("// Harness %s::%s (property %s): counterexample found by CBMC/cadical.\n" % (h["module"], h["name"], prop))
            fh.write("// Native replay through Kani concrete playback was not possible (trace too large).\n")
            fh.write("// Independent re-decision with kissat: verdict %s, failed checks:\n" % r2["verdict"])
            for i in r2["failed"]:
                fh.write("//   %s @ %s\n" % (i["desc"], i["loc"]))
            fh.write("// Reproduce: ./check %s --only %s\n" % (prop, h["name"]))
        if r2["verdict"] == "FAILED" and first and first <= second and not to2:
            notes.append("confirmed by a second solver (kissat): same failed checks")
            return True, rpath, notes
        notes.append("second solver did not confirm (verdict %s)" % r2["verdict"])
        return None, rpath, notes
    with open(rpath, "w") as fh:
        fh.write("// Concrete counterexample(s) for harness %s::%s (property %s), generated by Kani concrete playback.\n" % (h["module"], h["name"], prop))
        fh.write("// Replay: `./check %s --keep --only %s`, append this file to <scratch>/src/src/vk/%s.rs and run in <scratch>/src:\n" % (prop, h["name"], h["module"]))
        fh.write("//   cargo kani playback -Z concrete-playback --no-default-features --lib -- kani_concrete_playback_%s\n\n" % h["name"])
        fh.write("\n\n".join(blocks) + "\n")
    modfile = os.path.join(srcdir, "src", "vk", h["module"] + ".rs")
    with open(modfile, "a") as fh:
        fh.write("\n\n#[cfg(test)]\nmod kani_playback_tests_" + h["name"] + " {\n    use super::*;\n    #[allow(unused_imports)]\n    use std::vec::Vec;\n"
                 + "\n\n".join(blocks) + "\n}\n")
    results = []
    for prof in ("dev", "release"):
        cmd = ["cargo", "kani", "playback", "-Z", "concrete-playback", "--no-default-features", "--lib",
               "--", "kani_concrete_playback_" + h["name"]]
        env = None
        if prof == "release":
            # cargo kani playback has no --release: give the test profile release semantics instead
            env = {"CARGO_PROFILE_TEST_OPT_LEVEL": "3", "CARGO_PROFILE_TEST_OVERFLOW_CHECKS": "false",
                   "CARGO_PROFILE_TEST_DEBUG_ASSERTIONS": "false"}
        rc, out, to, _ = sh(cmd, cwd=srcdir, timeout=1200, env_extra=env)
        failed = ("test result: FAILED" in out) or bool(re.search(r"test \S+ \.\.\. FAILED", out))
        passed = bool(re.search(r"test result: ok\. [1-9]", out)) and not failed
        results.append((prof, failed, passed))
        with open(os.path.join(rdir, h["name"] + "." + prof + ".log"), "w") as fh:
            fh.write(out[-20000:])
    repro = any(f for _, f, _ in results)
    if not repro and not any(p for _, _, p in results):
        notes.append("playback did not run")
        return None, rpath, notes
    notes.append("playback: " + ", ".join("%s=%s" % (n, "FAILS" if f else ("passes" if p else "not-run")) for n, f, p in results))
    return repro, rpath, notes


# --------------------------------------------------------------------------
# one harness
# --------------------------------------------------------------------------

MEM_BUDGET_GB = float(os.environ.get("VERIF_MEM_GB", "52"))
_mem_cv = threading.Condition()
_mem_used = [0.0]


def _mem_claim(h):
    # expected peak of the harness (its ulimit is an upper bound, usually far above the peak)
    return float(h.get("mem_est", min(h.get("mem_gb", 12), 10)))


def run_harness(h, scratch, base_target, prop, known, keep):
    need = min(_mem_claim(h), MEM_BUDGET_GB)
    with _mem_cv:
        while _mem_used[0] + need > MEM_BUDGET_GB:
            _mem_cv.wait()
        _mem_used[0] += need
    try:
        return _run_harness(h, scratch, base_target, prop, known, keep)
    finally:
        with _mem_cv:
            _mem_used[0] -= need
            _mem_cv.notify_all()


def _run_harness(h, scratch, base_target, prop, known, keep):
    srcdir = os.path.join(scratch, "src")
    tdir = os.path.join(scratch, "t_" + h["name"])
    if os.path.exists(base_target):
        shutil.copytree(base_target, tdir, symlinks=True)
    res = {"harness": h["name"], "module": h["module"], "desc": h.get("desc", ""), "bounds": h.get("bounds", ""),
           "status": "error", "notes": []}
    t0 = time.time()
    cbmc_args = list(h.get("cbmc_args", []))
    uw, uwnotes = compute_unwindset(h, srcdir, tdir)
    if h.get("unwindset"):
        if uw is None:
            res["notes"] += uwnotes
            res["status"] = "inconclusive"
            res["wall_s"] = time.time() - t0
            return res
        if uw:
            cbmc_args += ["--unwindset", uw]
        res["unwindset"] = uwnotes
        h["_unwindset"] = uw
    extra = []
    tail = []
    if cbmc_args:
        extra += ["-Z", "unstable-options"]
        tail = ["--cbmc-args"] + cbmc_args
    h["_cbmc_tail"] = tail
    logf = os.path.join(scratch, h["name"] + ".log")
    rc, out, to, wall = sh(kani_cmd(h, tdir, extra) + tail, cwd=srcdir, timeout=h.get("timeout", 900),
                           mem_gb=h.get("mem_gb", 12), outfile=logf)
    res["wall_s"] = round(time.time() - t0, 1)
    r = parse_kani(out)
    res.update({k: r[k] for k in ("checks", "covers_total", "covers_sat", "verdict", "symex_s", "solver_s",
                                  "sat_vars", "sat_clauses", "sat_queries", "ssa_steps", "functions")})
    res["n_failed"] = len(r["failed"])
    if to:
        res["status"] = "inconclusive"
        res["notes"].append("timeout after %ds" % h.get("timeout", 900))
    elif r["verdict"] == "NONE" or r["status_error"]:
        res["status"] = "inconclusive"
        errs = [l for l in out.splitlines() if l.startswith("error") or "Status: ERROR" in l or "out of memory" in l.lower()]
        res["notes"].append("no verdict (rc=%s): %s" % (rc, "; ".join(errs[:5]) or out[-400:]))
    elif r["unwind_fail"]:
        res["status"] = "inconclusive"
        res["notes"].append("unwinding bound too small: " + "; ".join(i["loc"] for i in r["unwind_fail"][:4]))
    elif r["failed"]:
        unknown, knownhits = [], []
        for it in r["failed"]:
            k = match_known(known, prop, h["name"], it)
            (knownhits if k else unknown).append((it, k))
        res["failed"] = [it for it, _ in unknown + knownhits]
        res["known_hits"] = [{"id": k["id"], "what": k["what"], "desc": it["desc"]} for it, k in knownhits]
        if unknown:
            h["_failed_descs"] = [it["desc"] for it, _ in unknown]
            rep, rpath, notes = replay(h, scratch, tdir, prop)
            res["notes"] += notes
            res["replay"] = rpath
            if rep:
                res["status"] = "violation"
            elif h.get("no_native_replay") and rep is None:
                res["status"] = "violation"
                res["notes"].append("harness marked no_native_replay: reported on the solver verdict + trace")
            else:
                res["status"] = "inconclusive"
                res["notes"].append("counterexample did not reproduce natively")
        else:
            res["status"] = "known"
    elif r["verdict"] == "SUCCESSFUL":
        need = h.get("covers_min", 1)
        if r["covers_unsat"] and not h.get("allow_unsat_covers"):
            res["status"] = "inconclusive"
            res["notes"].append("vacuity witness unreachable: " + "; ".join(r["covers_unsat"][:4]))
        elif r["covers_sat"] < need:
            res["status"] = "inconclusive"
            res["notes"].append("harness has %d satisfied cover goals, needs >= %d" % (r["covers_sat"], need))
        else:
            res["status"] = "ok"
    else:
        res["status"] = "inconclusive"
        res["notes"].append("verdict %s with no failed check" % r["verdict"])
    if res["status"] in ("inconclusive", "error"):
        os.makedirs(os.path.join(VERIF, "replays", prop), exist_ok=True)
        try:
            shutil.copy(logf, os.path.join(VERIF, "replays", prop, h["name"] + ".inconclusive.log"))
        except OSError:
            pass
    if not keep:
        shutil.rmtree(tdir, ignore_errors=True)
    return res


# --------------------------------------------------------------------------
# main
# --------------------------------------------------------------------------

def main():
    ap = argparse.ArgumentParser()
    ap.add_argument("prop")
    ap.add_argument("--tier", default=os.environ.get("VERIF_TIER", "quick"))
    ap.add_argument("--only", default=None)
    ap.add_argument("--keep", action="store_true")
    ap.add_argument("--jobs", type=int, default=int(os.environ.get("VERIF_JOBS", "8")))
    ap.add_argument("--no-evidence", action="store_true")
    a = ap.parse_args()
    prop = a.prop
    tier = a.tier if a.tier in ("quick", "thorough") else "quick"
    seed = int(os.environ.get("VERIF_SEED", "0") or 0)
    t_start = time.time()
    hs = registry.harnesses_for(prop, tier)
    if a.only:
        hs = [h for h in hs if any(o in h["name"] for o in a.only.split(","))]
    if not hs:
        log("no harness registered for %s/%s" % (prop, tier))
        return 2
    # seed only permutes scheduling order (solver verdicts do not depend on it)
    import random
    random.Random(seed).shuffle(hs)
    hs.sort(key=lambda h: -h.get("cost", 1))
    known = load_known()
    scratch = make_scratch(prop)
    srcdir = os.path.join(scratch, "src")
    base = os.path.join(scratch, "t_base")
    results = []
    try:
        # base build: dependencies + crate once
        rc, out, to, wall = sh(kani_cmd(hs[0], base, ["--only-codegen"]), cwd=srcdir, timeout=900)
        if rc != 0:
            log("BUILD FAILED (harness sources do not compile against the current tree):")
            log("\n".join(l for l in out.splitlines() if l.startswith("error") or "-->" in l)[:4000] or out[-3000:])
            write_evidence(prop, tier, seed, [], time.time() - t_start, build_error=True, skip=a.no_evidence)
            log("INCONCLUSIVE property=%s reason=build" % prop)
            return 2
        log("[%s/%s] base build %.0fs, %d harnesses, jobs=%d" % (prop, tier, wall, len(hs), a.jobs))
        with cf.ThreadPoolExecutor(max_workers=a.jobs) as ex:
            futs = {ex.submit(run_harness, h, scratch, base, prop, known, a.keep): h for h in hs}
            for f in cf.as_completed(futs):
                r = f.result()
                results.append(r)
                log("  %-44s %-12s %6.1fs checks=%s covers=%s/%s %s" % (
                    r["harness"], r["status"], r.get("wall_s", 0), r.get("checks"), r.get("covers_sat"),
                    r.get("covers_total"), ("; ".join(r["notes"]))[:300]))
                for it in r.get("failed", [])[:6]:
                    log("      FAILED: %s @ %s" % (it["desc"], it["loc"]))
        # harnesses that ran out of memory while sharing the machine get one more attempt, alone
        oom = [r for r in results if r["status"] == "inconclusive"
               and any(("memory" in n.lower() or "no exit code" in n.lower()) for n in r["notes"])]
        for r in oom:
            h = dict(next(x for x in hs if x["name"] == r["harness"]))
            h["mem_gb"] = max(h.get("mem_gb", 12), 48)
            shutil.rmtree(os.path.join(scratch, "t_" + h["name"]), ignore_errors=True)
            log("  %-44s ran out of memory in the parallel pass; second attempt, alone, limit %d GB" % (h["name"], h["mem_gb"]))
            r2 = _run_harness(h, scratch, base, prop, known, a.keep)
            r2["notes"].append("second attempt (alone) after running out of memory in the parallel pass")
            results[results.index(r)] = r2
            log("  %-44s %-12s %6.1fs checks=%s covers=%s/%s %s" % (
                r2["harness"], r2["status"], r2.get("wall_s", 0), r2.get("checks"), r2.get("covers_sat"),
                r2.get("covers_total"), ("; ".join(r2["notes"]))[:300]))
            for it in r2.get("failed", [])[:6]:
                log("      FAILED: %s @ %s" % (it["desc"], it["loc"]))
    finally:
        if not a.keep:
            shutil.rmtree(scratch, ignore_errors=True)
        else:
            log("scratch kept at", scratch)
    results.sort(key=lambda r: r["harness"])
    wall = time.time() - t_start
    nviol = sum(1 for r in results if r["status"] == "violation")
    write_evidence(prop, tier, seed, results, wall, skip=a.no_evidence)
    rc = 0
    seen = set()
    for r in results:
        for k in r.get("known_hits", []):
            key = (k["id"])
            if key not in seen:
                seen.add(key)
                log("KNOWN-FINDING: property=%s %s [%s; harness %s: %s]" % (prop, k["what"], k["id"], r["harness"], k["desc"]))
    for r in results:
        if r["status"] == "violation":
            log("VIOLATION property=%s replay=%s" % (prop, r.get("replay")))
            for it in r.get("failed", [])[:5]:
                log("  harness %s: %s @ %s" % (r["harness"], it["desc"], it["loc"]))
            rc = 1
    if rc == 0 and any(r["status"] in ("inconclusive", "error") for r in results):
        for r in results:
            if r["status"] in ("inconclusive", "error"):
                log("INCONCLUSIVE property=%s harness=%s %s" % (prop, r["harness"], "; ".join(r["notes"])[:400]))
        rc = 2
    log("[%s/%s] %s in %.0fs: %d ok, %d known, %d violation, %d inconclusive" % (
        prop, tier, {0: "PASS", 1: "VIOLATION", 2: "INCONCLUSIVE"}[rc], wall,
        sum(1 for r in results if r["status"] == "ok"), sum(1 for r in results if r["status"] == "known"), nviol,
        sum(1 for r in results if r["status"] in ("inconclusive", "error"))))
    return rc


def write_evidence(prop, tier, seed, results, wall, build_error=False, skip=False):
    if skip:
        return
    os.makedirs(os.path.join(VERIF, "evidence"), exist_ok=True)
    ok = [r for r in results if r["status"] in ("ok", "known")]
    functions = sorted({f for r in results for f in r.get("functions", [])})
    samples = []
    for r in results:
        samples.append({
            "harness": "%s::%s" % (r["module"], r["harness"]), "what": r["desc"], "bounds": r["bounds"],
            "status": r["status"], "checks_decided": r.get("checks"), "checks_failed": r.get("n_failed"),
            "cover_goals": "%s/%s" % (r.get("covers_sat"), r.get("covers_total")),
            "ssa_steps": r.get("ssa_steps"), "sat_vars": r.get("sat_vars"), "sat_clauses": r.get("sat_clauses"),
            "symex_s": round(r.get("symex_s") or 0, 2), "solver_s": round(r.get("solver_s") or 0, 2),
            "wall_s": r.get("wall_s"), "unwindset": r.get("unwindset"), "notes": r.get("notes"),
            "failed": r.get("failed"), "known_findings": r.get("known_hits"),
        })
    pinfo = registry.PROPS.get(prop, {})
    ev = {
        "property_id": prop, "tier": tier, "seed": seed, "level": "model_checking",
        "coverage": {
            "evaluations": sum((r.get("checks") or 0) + (r.get("covers_total") or 0) for r in results) or (0 if results else 0),
            "distinct_nontrivial": len([r for r in ok if (r.get("covers_sat") or 0) >= 1]),
            "rule": "one evaluation = one CBMC property (assertion, overflow/bounds/unwinding check or cover goal) "
                    "decided by the SAT back end over all values of the harness's symbolic inputs; a harness instance "
                    "counts as distinct+non-trivial when it verified and all of its vacuity witnesses (kani::cover) were reached",
            "samples": samples,
            "harnesses": len(results), "harnesses_ok": len(ok),
            "functions_encoded": functions,
            "solver": "CBMC 6.11.0 (Kani 0.68.0), SAT back end cadical, unwinding assertions on",
            "solver_time_s": round(sum(r.get("solver_s") or 0 for r in results), 2),
            "symex_time_s": round(sum(r.get("symex_s") or 0 for r in results), 2),
            "bounds": pinfo.get("bounds", ""), "outside_claim": pinfo.get("outside", ""),
            "build_error": build_error,
            "explanation": pinfo.get("explanation", ""),
            "exhaustive": False,
        },
        "assumptions": pinfo.get("assumptions", []) + [
            "Kani's MIR-to-goto translation and CBMC's bit-precise semantics are trusted",
            "crate built with --no-default-features (logging macros expand to nothing)",
        ],
        "wall_s": round(wall, 1),
        "violations": sum(1 for r in results if r["status"] == "violation"),
    }
    if ev["coverage"]["evaluations"] < 1:
        ev["coverage"]["evaluations"] = 0
    with open(os.path.join(VERIF, "evidence", prop + ".json"), "w") as fh:
        json.dump(ev, fh, indent=1)


if __name__ == "__main__":
    sys.exit(main())
