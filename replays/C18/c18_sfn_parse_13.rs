// Concrete counterexample for harness vk_codec::c18_sfn_parse_13 (property C18).
// Replay: append to the harness module in a scratch overlay (./check C18 --keep) and run
//   cargo kani playback -Z concrete-playback --no-default-features -- kani_concrete_playback_c18_sfn_parse_13_14008270741284758868

#[test]
fn kani_concrete_playback_c18_sfn_parse_13_14008270741284758868() {
    let concrete_vals: Vec<Vec<u8>> = vec![
        // 244
        vec![244, 0, 0, 0],
        // 207
        vec![207, 0, 0, 0],
        // 128
        vec![128, 0, 0, 0],
        // 193
        vec![193, 0, 0, 0],
        // 224
        vec![224, 0, 0, 0],
        // 224
        vec![224, 0, 0, 0],
        // 160
        vec![160, 0, 0, 0],
        // 162
        vec![162, 0, 0, 0],
        // 46
        vec![46, 0, 0, 0],
        // 46
        vec![46, 0, 0, 0],
        // 127
        vec![127, 0, 0, 0],
        // 247
        vec![247, 0, 0, 0],
        // 1151
        vec![127, 4, 0, 0],
        // 10ul
        vec![10, 0, 0, 0, 0, 0, 0, 0],
    ];
    kani::concrete_playback_run(concrete_vals, c18_sfn_parse_13);
}

#[test]
fn kani_concrete_playback_c18_sfn_parse_13_18013279382437728874() {
    let concrete_vals: Vec<Vec<u8>> = vec![
        // 2047
        vec![255, 7, 0, 0],
        // 127
        vec![127, 0, 0, 0],
        // 2047
        vec![255, 7, 0, 0],
        // 2047
        vec![255, 7, 0, 0],
        // 255
        vec![255, 0, 0, 0],
        // 255
        vec![255, 0, 0, 0],
        // 3
        vec![3, 0, 0, 0],
        // 3
        vec![3, 0, 0, 0],
        // 2047
        vec![255, 7, 0, 0],
        // 127
        vec![127, 0, 0, 0],
        // 2047
        vec![255, 7, 0, 0],
        // 2047
        vec![255, 7, 0, 0],
        // 127
        vec![127, 0, 0, 0],
        // 13ul
        vec![13, 0, 0, 0, 0, 0, 0, 0],
    ];
    kani::concrete_playback_run(concrete_vals, c18_sfn_parse_13);
}

#[test]
fn kani_concrete_playback_c18_sfn_parse_13_1389387919584146267() {
    let concrete_vals: Vec<Vec<u8>> = vec![
        // 192
        vec![192, 0, 0, 0],
        // 238
        vec![238, 0, 0, 0],
        // 128
        vec![128, 0, 0, 0],
        // 160
        vec![160, 0, 0, 0],
        // 33
        vec![33, 0, 0, 0],
        // 223
        vec![223, 0, 0, 0],
        // 120
        vec![120, 0, 0, 0],
        // 130
        vec![130, 0, 0, 0],
        // 98
        vec![98, 0, 0, 0],
        // 110
        vec![110, 0, 0, 0],
        // 45
        vec![45, 0, 0, 0],
        // 108
        vec![108, 0, 0, 0],
        // 47
        vec![47, 0, 0, 0],
        // 8ul
        vec![8, 0, 0, 0, 0, 0, 0, 0],
    ];
    kani::concrete_playback_run(concrete_vals, c18_sfn_parse_13);
}
