// Harness vk_fat::c10_crash_make_dir16 (property C04): counterexample found by CBMC/cadical.
// Native replay through Kani concrete playback was not possible (trace too large).
// Independent re-decision with kissat: verdict FAILED, failed checks:
//   "crash.subdir: sub-directory entry on the medium has no cluster of its own" @ src/vk/vk_fat.rs:1312:9 in function fat::volume::vk_fat::c10_crash_make_dir16
//   "crash.subdir: sub-directory cluster exposes uninitialised contents (no dot entries / stale slots)" @ src/vk/vk_fat.rs:1315:9 in function fat::volume::vk_fat::c10_crash_make_dir16
// Reproduce: ./check C04 --only c10_crash_make_dir16
