// Harness vk_fat::c16_truncate_any_chain_abstract_fat (property C16): counterexample found by CBMC/cadical.
// Native replay through Kani concrete playback was not possible (trace too large).
// Independent re-decision with kissat: verdict FAILED, failed checks:
//   "info.count: free-cluster count did not grow by the number of clusters freed" @ src/vk/vk_fat.rs:1672:31 in function fat::volume::vk_fat::c16_truncate_any_chain_abstract_fat
// Reproduce: ./check C16 --only c16_truncate_any_chain_abstract_fat
