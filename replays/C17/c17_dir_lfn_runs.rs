// replay skipped (VERIF_NO_REPLAY): solver verdict only
