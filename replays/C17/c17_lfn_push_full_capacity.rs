// no concrete playback test could be generated for c17_lfn_push_full_capacity
