// Harness vk_vm::c15_mount_correct_p3 (property C15): counterexample found by CBMC/cadical.
// Native replay through Kani concrete playback was not possible (trace too large).
// Independent re-decision with kissat: verdict FAILED, failed checks:
//   "mount.layout: first data sector = reserved + nfats*fatsz + root dir sectors" @ src/vk/vk_vm.rs:184:5 in function volume_mgr::vk_vm::mount_correct
// Reproduce: ./check C15 --only c15_mount_correct_p3
