// no concrete playback test could be generated for c15_mount_total_p3
