// Harness vk_fat::c05_free_chain_abstract_fat (property C05): counterexample found by CBMC/cadical.
// Native replay through Kani concrete playback was not possible (trace too large).
// Independent re-decision with kissat: verdict FAILED, failed checks:
//   "info.hint: hint" @ src/vk/vk_fat.rs:2176:13 in function fat::volume::vk_fat::c05_free_chain_abstract_fat
// Reproduce: ./check C05 --only c05_free_chain_abstract_fat
