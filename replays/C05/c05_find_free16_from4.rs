// Harness vk_fat::c05_find_free16_from4 (property C05): counterexample found by CBMC/cadical.
// Native replay through Kani concrete playback was not possible (trace too large).
// Independent re-decision with kissat: verdict FAILED, failed checks:
//   "alloc.in_range: free-cluster search returned a cluster outside [start, end) (FAT slack)" @ src/vk/vk_fat.rs:207:13 in function fat::volume::vk_fat::find_free16
// Reproduce: ./check C05 --only c05_find_free16_from4
