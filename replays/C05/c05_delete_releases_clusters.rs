// Harness vk_fsop::c05_delete_releases_clusters (property C05): counterexample found by CBMC/cadical.
// Native replay through Kani concrete playback was not possible (trace too large).
// Independent re-decision with kissat: verdict FAILED, failed checks:
//   "space.reclaim: clusters of a deleted file are still marked in use (leaked)" @ src/vk/vk_fsop.rs:882:5 in function volume_mgr::vk_fsop::c05_delete_releases_clusters
// Reproduce: ./check C05 --only c05_delete_releases_clusters
