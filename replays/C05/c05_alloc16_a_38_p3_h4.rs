// Harness vk_fat::c05_alloc16_a_38_p3_h4 (property C05): counterexample found by CBMC/cadical.
// Native replay through Kani concrete playback was not possible (trace too large).
// Independent re-decision with kissat: verdict FAILED, failed checks:
//   "alloc.full_use: allocation failed although a free cluster exists" @ src/vk/vk_fat.rs:328:13 in function fat::volume::vk_fat::alloc16_map
// Reproduce: ./check C05 --only c05_alloc16_a_38_p3_h4
