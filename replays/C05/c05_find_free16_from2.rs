// no concrete playback test could be generated for c05_find_free16_from2
